"""
Reference model for C19, independent of `EditLog` and of the repository's path
and forwarding code: statement trees are compared by a generic structural
fingerprint (reflection over `__slots__`, source locations ignored), aligned
block by block with a longest-common-subsequence, and classified.

Paths are plain tuples: a block path is () for the function body or
stmt_path + (field,), a statement path is block_path + (index,).
"""

from __future__ import annotations


# --------------------------------------------------------------------------
# structural fingerprints

_SLOTS: dict = {}


def _slots(cls):
    s = _SLOTS.get(cls)
    if s is None:
        s = []
        for k in cls.__mro__:
            for name in getattr(k, '__slots__', ()):
                if name not in ('_loc', '__weakref__', '__dict__') and name not in s:
                    s.append(name)
        _SLOTS[cls] = s
    return s


def _is_ast(x) -> bool:
    from fpy2.ast.fpyast import Ast
    return isinstance(x, Ast)


def _is_block(x) -> bool:
    from fpy2.ast.fpyast import StmtBlock
    return isinstance(x, StmtBlock)


def fingerprint(x, header_only: bool = False):
    """A hashable structural fingerprint; `header_only` leaves out nested statement blocks."""
    if _is_ast(x):
        parts = [type(x).__name__]
        for name in _slots(type(x)):
            try:
                v = getattr(x, name)
            except AttributeError:
                continue
            if header_only and _is_block(v):
                parts.append((name, '<block>'))
            else:
                parts.append((name, fingerprint(v)))
        return tuple(parts)
    if isinstance(x, (list, tuple)):
        return (type(x).__name__,) + tuple(fingerprint(v) for v in x)
    if isinstance(x, dict):
        return ('dict',) + tuple((fingerprint(k), fingerprint(v)) for k, v in x.items())
    if isinstance(x, (set, frozenset)):
        return ('set', len(x))
    try:
        hash(x)
        return ('v', type(x).__name__, x)
    except TypeError:
        return ('id', id(x))


def block_fields(stmt):
    """(field name, StmtBlock) for each block a statement holds, in slot order."""
    out = []
    for name in _slots(type(stmt)):
        try:
            v = getattr(stmt, name)
        except AttributeError:
            continue
        if _is_block(v):
            out.append((name, v))
    # the order a visitor reaches them in: then-branch before else-branch
    out.sort(key=lambda fv: {'body': 0, 'ift': 1, 'iff': 2}.get(fv[0], 3))
    return out


def walk(func):
    """Every statement of a FuncDef with its tuple path, a statement before the blocks it holds."""
    def rec(block, bpath):
        for i, s in enumerate(block.stmts):
            sp = bpath + (i,)
            yield sp, s
            for field, sub in block_fields(s):
                yield from rec(sub, sp + (field,))
    yield from rec(func.body, ())


def resolve(func, spath):
    """The statement at a tuple statement path, or None."""
    block = func.body
    s = None
    i = 0
    while i < len(spath):
        idx = spath[i]
        if not isinstance(idx, int) or not (0 <= idx < len(block.stmts)):
            return None
        s = block.stmts[idx]
        i += 1
        if i < len(spath):
            field = spath[i]
            nb = dict(block_fields(s)).get(field)
            if nb is None:
                return None
            block = nb
            i += 1
    return s


def resolve_block(func, bpath):
    if bpath == ():
        return func.body
    s = resolve(func, bpath[:-1])
    if s is None:
        return None
    return dict(block_fields(s)).get(bpath[-1])


# --------------------------------------------------------------------------
# alignment

def _share_a_statement(s, t) -> bool:
    tf = dict(block_fields(t))
    for field, sub in block_fields(s):
        if field in tf:
            a = {fingerprint(x) for x in sub.stmts}
            if any(fingerprint(y) in a for y in tf[field].stmts):
                return True
    return False


def _beneath_fps(s) -> set:
    out = set()
    for _field, sub in block_fields(s):
        for x in sub.stmts:
            out.add(fingerprint(x))
            out |= _beneath_fps(x)
    return out


def _weighted_pairs(n: int, m: int, weight) -> list[tuple[int, int]]:
    """Order-preserving pairing of 0..n-1 with 0..m-1 that maximises the total weight
    (weight(i, j) <= 0: the two may not be paired)."""
    w = [[weight(i, j) for j in range(m)] for i in range(n)]
    dp = [[0] * (m + 1) for _ in range(n + 1)]
    for i in range(n - 1, -1, -1):
        for j in range(m - 1, -1, -1):
            best = max(dp[i + 1][j], dp[i][j + 1])
            if w[i][j] > 0:
                best = max(best, w[i][j] + dp[i + 1][j + 1])
            dp[i][j] = best
    out = []
    i = j = 0
    while i < n and j < m:
        if w[i][j] > 0 and dp[i][j] == w[i][j] + dp[i + 1][j + 1]:
            out.append((i, j))
            i += 1
            j += 1
        elif dp[i + 1][j] >= dp[i][j + 1]:
            i += 1
        else:
            j += 1
    return out


def _lcs(a: list, b: list) -> list[tuple[int, int]]:
    n, m = len(a), len(b)
    dp = [[0] * (m + 1) for _ in range(n + 1)]
    for i in range(n - 1, -1, -1):
        for j in range(m - 1, -1, -1):
            if a[i] == b[j]:
                dp[i][j] = dp[i + 1][j + 1] + 1
            else:
                dp[i][j] = max(dp[i + 1][j], dp[i][j + 1])
    out = []
    i = j = 0
    while i < n and j < m:
        if a[i] == b[j]:
            out.append((i, j))
            i += 1
            j += 1
        elif dp[i + 1][j] >= dp[i][j + 1]:
            i += 1
        else:
            j += 1
    return out


class Alignment:
    """
    The model's account of one derivation step old -> new.

    stmt[old_stmt_path] is one of
        ('same', new_path, ambiguous)      structurally identical statement
        ('inside', new_path)               same compound statement, something beneath it changed
        ('rewritten', new_block, lo, hi)   replaced: the image lies within new_block[lo:hi]
        ('lost',)                          beneath a rewritten statement
    block[old_block_path] = (new_block_path, anchors{old index -> new index}, new length) for
    blocks whose enclosing statements all survive.
    """

    def __init__(self, old, new):
        self.old = old
        self.new = new
        self.stmt: dict = {}
        self.block: dict = {}
        self.dups: set = set()      # old block paths where duplicates make the alignment a matter of choice
        self._align(old.body, new.body, (), ())

    def _mark_lost(self, s, spath):
        for field, sub in block_fields(s):
            for i, c in enumerate(sub.stmts):
                cp = spath + (field, i)
                self.stmt[cp] = ('lost',)
                self._mark_lost(c, cp)

    def _align(self, ob, nb, opath, npath):
        olds, news = ob.stmts, nb.stmts
        fo = [fingerprint(s) for s in olds]
        fn = [fingerprint(s) for s in news]
        pairs = _lcs(fo, fn)
        anchors = dict(pairs)
        dup = len(set(fo)) != len(fo) or len(set(fn)) != len(fn)
        if dup:
            self.dups.add(opath)
        matched_new = {j for _, j in pairs}
        # second pass inside the gaps: compound statements whose header survives
        gaps = []
        prev_o, prev_n = -1, -1
        for (i, j) in pairs + [(len(olds), len(news))]:
            gaps.append((prev_o + 1, i, prev_n + 1, j))
            prev_o, prev_n = i, j
        inside = {}
        for (o_lo, o_hi, n_lo, n_hi) in gaps:
            oc = [i for i in range(o_lo, o_hi) if block_fields(olds[i])]
            nc = [j for j in range(n_lo, n_hi) if block_fields(news[j])]
            if not oc or not nc:
                continue
            ho = [fingerprint(olds[i], header_only=True) for i in oc]
            hn = [fingerprint(news[j], header_only=True) for j in nc]
            # equal headers may be paired; among the order-preserving pairings the one whose partners
            # have the most statements in common beneath them (two `with fp.REAL:` blocks side by side,
            # one of them new, are told apart by what they hold)
            bo = [_beneath_fps(olds[i]) for i in oc]
            bn = [_beneath_fps(news[j]) for j in nc]
            for a, b in _weighted_pairs(len(oc), len(nc), lambda x, y: (1 + 1000 * len(bo[x] & bn[y])) if ho[x] == hn[y] else 0):
                inside[oc[a]] = nc[b]
        all_anchor = dict(anchors)
        all_anchor.update(inside)
        # third pass: a compound statement whose *header* was rewritten while its blocks survive
        # (a call inlined out of an `if` condition): same kind, same gap, and at least one
        # statement in common beneath.  The statement itself counts as rewritten (its image is
        # somewhere in the gap); what is beneath it is aligned rather than written off.
        carried = {}
        for (o_lo, o_hi, n_lo, n_hi) in gaps:
            oc = [i for i in range(o_lo, o_hi) if block_fields(olds[i]) and i not in inside]
            nc = [j for j in range(n_lo, n_hi) if block_fields(news[j]) and j not in inside.values()]
            if not oc or not nc:
                continue
            to = [type(olds[i]).__name__ for i in oc]
            tn = [type(news[j]).__name__ for j in nc]
            for a, b in _lcs(to, tn):
                if _share_a_statement(olds[oc[a]], news[nc[b]]):
                    carried[oc[a]] = nc[b]
        self.block[opath] = (npath, all_anchor, len(news))
        order = sorted(all_anchor.items())
        for i, s in enumerate(olds):
            sp = opath + (i,)
            if i in anchors:
                j = anchors[i]
                self.stmt[sp] = ('same', npath + (j,), dup)
                # children are identical too
                self._same_children(s, news[j], sp, npath + (j,))
            elif i in inside:
                j = inside[i]
                self.stmt[sp] = ('inside', npath + (j,))
                self._align_children(s, news[j], sp, npath + (j,))
            else:
                lo = 0
                hi = len(news)
                for oi, nj in order:
                    if oi < i:
                        lo = nj + 1
                    elif oi > i:
                        hi = nj
                        break
                if dup:
                    lo, hi = 0, len(news)
                self.stmt[sp] = ('rewritten', npath, lo, hi)
                if i in carried:
                    self._align_children(s, news[carried[i]], sp, npath + (carried[i],))
                else:
                    self._mark_lost(s, sp)

    def _align_children(self, s, t, sp, tp):
        nf = dict(block_fields(t))
        for field, sub in block_fields(s):
            if field in nf:
                self._align(sub, nf[field], sp + (field,), tp + (field,))
            else:
                for k, c in enumerate(sub.stmts):
                    self.stmt[sp + (field, k)] = ('lost',)
                    self._mark_lost(c, sp + (field, k))

    def _same_children(self, s_old, s_new, op, np_):
        nf = dict(block_fields(s_new))
        for field, sub in block_fields(s_old):
            nsub = nf[field]
            self.block[op + (field,)] = (np_ + (field,), {k: k for k in range(len(sub.stmts))}, len(nsub.stmts))
            for k, c in enumerate(sub.stmts):
                self.stmt[op + (field, k)] = ('same', np_ + (field, k), False)
                self._same_children(c, nsub.stmts[k], op + (field, k), np_ + (field, k))

    # -- pushing a model position through this step ---------------------------

    def push(self, pos):
        """
        pos is ('path', stmt_path) | ('span', block_path, lo, hi) | ('lost',).
        Returns the position in the new program, with the same vocabulary.
        """
        if pos[0] == 'lost':
            return pos
        if pos[0] == 'path':
            c = self.stmt.get(pos[1])
            if c is None:
                return ('lost',)
            if c[0] in ('same', 'inside'):
                return ('path', c[1])
            if c[0] == 'rewritten':
                return ('span', c[1], c[2], c[3])
            return ('lost',)
        _, bpath, lo, hi = pos
        b = self.block.get(bpath)
        if b is None:
            return ('lost',)
        npath, anchors, nlen = b
        nlo, nhi = 0, nlen
        if bpath in self.dups:
            return ('span', npath, 0, nlen)
        for oi, nj in sorted(anchors.items()):
            if oi < lo:
                nlo = nj + 1
            elif oi >= hi:
                nhi = nj
                break
        # anchors inside the span stay inside the hull by construction
        return ('span', npath, nlo, nhi)


def changed_old_paths(al: Alignment) -> list:
    """Old statement paths that are not preserved verbatim ('same')."""
    return [p for p, c in al.stmt.items() if c[0] != 'same']
