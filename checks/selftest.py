"""
Self-tests of the simulator (not a property check):

  ./run selftest determinism [N]   every seed twice in fresh forks, through an explicit-schedule
                                   replay, and in a fresh interpreter under another PYTHONHASHSEED
  ./run selftest digests SUB A B   prints "index seed digest steps" for runs A..B-1 of a sub-batch
"""

from __future__ import annotations

import json
import os
import subprocess
import sys

from sim import core


def _digests(sub: str, a: int, b: int, with_replay: bool = False):
    from checks import c18
    out = []
    for i in range(a, b):
        seed = core.run_seed('C18:' + sub, 0, i)
        run = c18.gen_run(seed, 'quick', sub)
        kind, res = c18.simulate(run)
        if kind != 'ok':
            out.append((i, seed, kind, 0, None))
            continue
        rep = None
        if with_replay:
            # the explicit-schedule form (what replay files hold) must be repeatable in itself; it
            # is a different request, so object addresses (hence id()-ordered sets inside fpy2) may
            # differ from the seeded form: equality with the seeded digest is reported, not required
            from sim.threads import pack_schedule
            run2 = dict(run, schedule=pack_schedule(res['segments']))
            kind2, res2 = c18.simulate(run2)
            kind3, res3 = c18.simulate(run2)
            rep = (res2['digest'] if kind2 == 'ok' else kind2, res3['digest'] if kind3 == 'ok' else kind3,
                   res2.get('steps') if kind2 == 'ok' else None)
        out.append((i, seed, res['digest'], res['steps'], rep))
    return out


def main(argv: list[str]) -> int:
    what = argv[0] if argv else 'determinism'
    if what == 'digests':
        sub, a, b = argv[1], int(argv[2]), int(argv[3])
        for i, seed, d, steps, _ in _digests(sub, a, b):
            print(i, seed, d, steps)
        return 0
    if what == 'determinism':
        n = int(argv[1]) if len(argv) > 1 else 12
        bad = 0
        hashdep = 0
        repdiff = 0
        total = 0
        for sub in ('plain', 'faults', 'captured'):
            first = _digests(sub, 0, n, with_replay=True)
            second = _digests(sub, 0, n)
            env = dict(os.environ, PYTHONHASHSEED='1', VERIF_HASHSEED='1')
            env.pop('VERIF_ZYGOTE', None)     # its own zygote, under the other hash seed
            p = subprocess.run([sys.executable, os.path.join(core.VERIF, 'run.py'), 'selftest', 'digests', sub, '0', str(n)],
                               env=env, capture_output=True, text=True, timeout=1800)
            other = {}
            for line in p.stdout.splitlines():
                parts = line.split()
                if len(parts) == 4:
                    other[int(parts[0])] = (parts[2], int(parts[3]))
            for (i, seed, d, steps, rep), (_, _, d2, steps2, _) in zip(first, second):
                total += 1
                if d != d2 or steps != steps2:
                    bad += 1
                    print(f'NONDETERMINISTIC {sub} run {i} seed {seed}: {d}/{steps} vs {d2}/{steps2}')
                if rep[0] != rep[1]:
                    bad += 1
                    print(f'REPLAY-NONDETERMINISTIC {sub} run {i} seed {seed}: {rep}')
                if rep[0] != d:
                    repdiff += 1
                o = other.get(i)
                if o is None:
                    print(f'hashseed=1: no result for {sub} run {i}: {p.stderr[-300:]}')
                    bad += 1
                elif o[0] != d:
                    hashdep += 1
        print(f'selftest determinism: {total} runs x (seeded twice + explicit-schedule replay twice + fresh interpreter under '
              f'PYTHONHASHSEED=1): {bad} disagreements; informational: {repdiff} explicit-schedule digests differ from the '
              f'seeded one (address-dependent set order), {hashdep} digests differ under the other hash seed')
        return 0 if bad == 0 else 2
    print('unknown selftest', what)
    return 2
