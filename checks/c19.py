"""
C19 — sites, indices and cursors name exactly what they say.

Seeded operation histories over a derivation tree of programs: cursors are
taken, strategies are aimed (valid index, bad index, None, cursor of this
program, of an ancestor, of an unrelated program, of the wrong kind), opaque
passes intervene, strategies decline half-way, and cursors are forwarded.  Every
answer of the implementation is compared with an independent alignment model
(`c19_model`).  No scheduler or clock is involved: the property is about
histories, and this check uses the history generator, failure ops, the
reference model and the minimiser of the simulation toolkit.
"""

from __future__ import annotations

import json
import os
import keyword
import re
import random

from sim import core
from checks import c19_model as M
from checks import c19_gen as G

PROP = 'C19'
WL = os.path.join(core.VERIF, 'workloads', 'c19_roots.py')
_NS = None

LOOP = ['unroll_for', 'split', 'unroll_while']
ROUNDING = ['unfold_special', 'unfold_overflow', 'unfold_neg_zero', 'float_to_fixed', 'rescale_fixed']
INSERT = ['insert_round']
AIMABLE = LOOP + ['inline'] + ROUNDING + INSERT
EXPR_SITED = ('inline', 'insert_round', 'rw_fma', 'rw_dbl')     # strategies whose sites are expressions
RULES = ['rw_fma', 'rw_sum', 'rw_dbl', 'rw_peel']     # user rewrite rules (fpy2.rewrite.Rewrite), aimed like strategies
MAX_STMTS = 250
HISTORY_TIME_LIMIT_S = 40
OPAQUE = ['simplify', 'elim_iter', 'fuse', 'elim_round', 'lift_context', 'close']


def ns():
    global _NS
    if _NS is None:
        import importlib
        _NS = importlib.import_module('workloads.c19_roots').__dict__
    return _NS


def new_rule(name: str):
    from fpy2.rewrite import Rewrite
    lhs, rhs = ns()['rules']()[name[3:]]
    return Rewrite(lhs, rhs, name=name)


# --------------------------------------------------------------------------
# bridging the repository's path objects and the model's tuple paths

def to_repo_block(bpath: tuple):
    from fpy2.strategies import FuncBody
    p = FuncBody()
    i = 0
    while i < len(bpath):
        p = p.stmt(bpath[i]).block(bpath[i + 1])
        i += 2
    return p


def to_repo_stmt(spath: tuple):
    return to_repo_block(spath[:-1]).stmt(spath[-1])


def from_repo_block(b) -> tuple:
    from fpy2.strategies import FuncBody
    if isinstance(b, FuncBody):
        return ()
    return from_repo_stmt(b.parent) + (b.field,)


def from_repo_stmt(s) -> tuple:
    return from_repo_block(s.parent) + (s.index,)


def cursor_pos(c):
    """('stmt', path) | ('region', block, lo, hi) | ('expr', stmt path) for a repository cursor."""
    from fpy2.strategies import StmtCursor, BlockCursor, ExprCursor
    if isinstance(c, StmtCursor):
        return ('stmt', from_repo_stmt(c.path))
    if isinstance(c, BlockCursor):
        return ('region', from_repo_block(c.block_path), c.span.start, c.span.stop)
    if isinstance(c, ExprCursor):
        # the statement path, then the (field, index) steps down to the expression
        steps = []
        p = c.path
        while not hasattr(p, 'block'):      # ExprPath has no .block(); StmtPath does
            steps.append((p.field, p.index))
            p = p.parent
        return ('expr', from_repo_stmt(p), tuple(reversed(steps)))
    raise TypeError(c)


def site_stmt_paths(c) -> list:
    """The statement paths a site cursor names: one statement, the statements of a region, or the
    statement holding an expression."""
    pos = cursor_pos(c)
    if pos[0] == 'region':
        return [pos[1] + (i,) for i in range(pos[2], pos[3])]
    return [pos[1]]


def beneath_or_at(p: tuple, anc: tuple) -> bool:
    return p[:len(anc)] == anc


# --------------------------------------------------------------------------
# strategies

def _factor_of(f, params: dict):
    """The split factor: a number, or the name of a variable -- only when the program has a parameter of that name."""
    fac = params.get('factor', 2)
    if isinstance(fac, str) and fac not in {str(a.name) for a in f.ast.args}:
        return 2
    return fac


_CTXS: dict = {}


def ctx_named(n: str):
    """Contexts for `insert_round`, by name: the three IEEE formats, each also under another rounding mode
    and with random bits (same format, another context: a stochastic target is refused everywhere)."""
    import fpy2 as fp
    if n not in _CTXS:
        base, _, var = n.partition('_')
        es, nbits = {'FP64': (11, 64), 'FP32': (8, 32), 'FP16': (5, 16)}[base]
        if not var:
            _CTXS[n] = getattr(fp, base)
        elif var == 'SR':
            _CTXS[n] = fp.IEEEContext(es, nbits, fp.RM.RNE, num_randbits=4)
        else:
            _CTXS[n] = fp.IEEEContext(es, nbits, getattr(fp.RM, var))
    return _CTXS[n]


def pre_list(name: str, f, params: dict):
    """History element: the same listing asked first with a sibling parameter (same format, another context).
    What a listing answers must not depend on what was listed before."""
    if params.get('pre'):
        try:
            list_sites(name, f, dict(params, ctx=params['pre'], pre=None))
        except Exception:
            pass


def strategy_call(name: str, f, where, params: dict, rule=None):
    if name in RULES:
        return (rule or new_rule(name)).apply(f, where, repeat=params.get('repeat', 1))
    from fpy2 import strategies as S
    from fpy2.transform import ForUnrollStrategy, SplitLoopStrategy
    fn = getattr(S, name)
    if name == 'unroll_for':
        return fn(f, where, params.get('times', 1), strategy=getattr(ForUnrollStrategy, params.get('strategy', 'PEEL')))
    if name == 'split':
        return fn(f, _factor_of(f, params), where, strategy=getattr(SplitLoopStrategy, params.get('strategy', 'PEEL')))
    if name == 'unroll_while':
        return fn(f, where, params.get('times', 1))
    if name == 'inline':
        return fn(f, where, recursive=params.get('recursive', True))
    if name == 'unfold_overflow':
        return fn(f, where, early_check=params.get('early_check', False))
    if name == 'insert_round':
        return fn(f, ctx_named(params.get('ctx', 'FP64')), where)
    return fn(f, where)


def listing_kwargs(name: str, params: dict, f=None) -> dict:
    from fpy2.transform import ForUnrollStrategy, SplitLoopStrategy
    from fpy2.ast.fpyast import Integer
    if name == 'unroll_for':
        return {'times': params.get('times', 1), 'strategy': getattr(ForUnrollStrategy, params.get('strategy', 'PEEL'))}
    if name == 'split':
        fac = _factor_of(f, params) if f is not None else params.get('factor', 2)
        if isinstance(fac, str):
            from fpy2.ast.fpyast import NamedId, Var
            fac_e = Var(NamedId(fac), None)       # a variable factor: the strategy emits a runtime `assert factor >= 1`
        else:
            fac_e = Integer(fac, None)
        return {'factor': fac_e, 'strategy': getattr(SplitLoopStrategy, params.get('strategy', 'PEEL'))}
    if name == 'inline':
        return {'recursive': params.get('recursive', True)}
    if name == 'unfold_overflow':
        return {'early_check': params.get('early_check', False)}
    if name == 'insert_round':
        return {'ctx': ctx_named(params.get('ctx', 'FP64'))}
    return {}


def list_sites(name: str, f, params: dict, within=None):
    if name in RULES:
        from fpy2.rewrite import find_all
        lhs, _ = ns()['rules']()[name[3:]]
        return find_all(lhs, f, within), []
    from fpy2 import strategies as S
    kw = listing_kwargs(name, params, f)
    try:
        return S.sites(getattr(S, name), f, within, **kw), S.refusals(getattr(S, name), f, within, **kw)
    except TypeError:
        # a listing that does not take one of the rewrite's parameters
        return S.sites(getattr(S, name), f, within), S.refusals(getattr(S, name), f, within)


def gen_params(r: random.Random, name: str) -> dict:
    if name == 'unroll_for':
        return {'times': r.choice([1, 1, 2, 3]), 'strategy': r.choice(['PEEL', 'PEEL', 'STRICT'])}
    if name == 'split':
        return {'factor': r.choice([2, 2, 3, 4, 'n']), 'strategy': r.choice(['PEEL', 'PEEL', 'STRICT'])}
    if name == 'unroll_while':
        return {'times': r.choice([1, 1, 2, 3])}
    if name == 'inline':
        return {'recursive': r.random() < 0.7}
    if name == 'unfold_overflow':
        return {'early_check': r.random() < 0.5}
    if name in RULES:
        return {'repeat': r.choice([1, 1, 2, 3])}
    if name == 'insert_round':
        base = r.choice(['FP64', 'FP64', 'FP32', 'FP16'])
        c = base + r.choice(['', '', '', '_RTZ', '_RTP', '_SR'])
        sib = base + r.choice(['', '_RTZ', '_SR', '_SR'])
        return {'ctx': c, 'pre': sib if sib != c and r.random() < 0.6 else None}
    return {}


def opaque_call(name: str, f):
    from fpy2 import strategies as S
    return getattr(S, name)(f)


# --------------------------------------------------------------------------
# history generation: ops carry only small integers; they are resolved against
# the state at execution time (modulo what exists), so any sub-list of a history
# is again a valid history -- which is what lets ddmin shrink it

_APPLICABLE: dict = {}


def root_fn(root: str):
    """A named root of workloads/c19_roots.py, or 'gen:<seed>' for a generated program."""
    if root.startswith('gen:'):
        return G.load(int(root[4:]))
    return ns()[root]


def applicable(root: str) -> list[str]:
    """Strategies that list at least one site in the root program (computed once per root)."""
    if root not in _APPLICABLE:
        f = root_fn(root)
        if len(_APPLICABLE) > 300:
            _APPLICABLE.clear()
        out = []
        for name in AIMABLE + RULES:
            try:
                s, _ = list_sites(name, f, {})
                if s:
                    out.append(name)
            except Exception:
                pass
        _APPLICABLE[root] = out
    return _APPLICABLE[root]


def gen_history(seed: int, tier: str) -> dict:
    r = random.Random(seed)
    roots = ns()['ROOTS']
    root = r.choice(roots)
    other = r.choice([x for x in roots if x != root])
    if r.random() < 0.5:
        # a generated program (a pure function of its seed); fall back when the front end rejects it
        cand = f'gen:{r.randrange(1 << 40)}'
        if root_fn(cand) is not None:
            root = cand
    nops = r.randint(4, 12 if tier == 'quick' else 16)
    # swarm: a subset of strategies for this run, biased to those with sites in the root program
    app = applicable(root)
    strategies = r.sample(app, min(len(app), r.randint(1, 4))) if app else []
    strategies += r.sample(AIMABLE, r.randint(0, 2) if strategies else 2)
    ops = []
    for _ in range(nops):
        x = r.random()
        if x < 0.22:
            ops.append({'op': 'take', 'node': r.randrange(64), 'kind': r.choice(['stmt', 'stmt', 'stmt', 'region', 'expr']),
                        'k': r.randrange(1 << 16), 'len': r.randint(1, 3)})
        elif x < 0.62:
            name = r.choice(strategies)
            w = r.random()
            if w < 0.42:
                where = ['idx', r.randrange(64)]
            elif w < 0.52:
                where = ['none']
            elif w < 0.64:
                where = ['bad', r.choice([-1, 0, 7, 1000, 'True', 'False', '1.0'])]
            elif w < 0.88:
                where = ['cursor', r.randrange(64)]
            elif w < 0.94:
                where = ['foreign']
            else:
                where = ['wrongkind', r.randrange(64)]
            ops.append({'op': 'apply', 'node': r.choice([r.randrange(64), -1, -1]), 'strategy': name, 'params': gen_params(r, name),
                        'where': where})
        elif x < 0.70:
            ops.append({'op': 'opaque', 'node': r.randrange(64), 'name': r.choice(OPAQUE)})
        elif x < 0.74:
            ops.append({'op': 'with_rt', 'node': r.randrange(64)})
        elif x < 0.92:
            ops.append({'op': 'forward', 'cursor': r.randrange(64), 'node': r.choice([r.randrange(64), -1])})
        else:
            lname = r.choice(strategies or AIMABLE)
            ops.append({'op': 'list', 'node': r.randrange(64), 'strategy': lname, 'params': gen_params(r, lname),
                        'within': r.choice([None, r.randrange(64)])})
    return {'seed': seed, 'root': root, 'other': other, 'ops': ops}


# --------------------------------------------------------------------------
# executing a history against the real code, with the oracle alongside

class World:
    def __init__(self, hist: dict):
        from fpy2.strategies import StmtCursor
        self.hist = hist
        n = ns()
        self.nodes = [{'fn': root_fn(hist['root']), 'parent': None, 'al': None, 'reported': True, 'via': 'root'}]
        self.other = root_fn(hist['other'])
        self.cursors = []
        self.rules = {name: new_rule(name) for name in RULES}   # reused across the ops of this history
        self.vios: list[dict] = []
        self.stats = core.Stats()
        self.trace: list = []

    # -- helpers -----------------------------------------------------------

    def vio(self, cls: str, detail: dict, strategy: str | None = None, where_kind: str | None = None):
        sig = {'cls': cls, 'root': self.hist['root'] if not self.hist['root'].startswith('gen:') else 'gen', 'strategy': strategy,
               'where': where_kind}
        self.vios.append({'property': PROP, 'cls': cls, 'signature': sig, 'detail': detail, 'case': self.hist})

    def node(self, k: int):
        # a negative index names the most recently derived program: rewrites are usually chained
        return len(self.nodes) - 1 if k < 0 else k % len(self.nodes)

    def canon(self, i: int) -> int:
        """The first node holding the same program (with_rt copies share it)."""
        return self.nodes[i].get('canon', i)

    def ancestors(self, i: int) -> list[int]:
        out = [self.canon(i)]
        while self.nodes[out[-1]]['parent'] is not None:
            out.append(self.canon(self.nodes[out[-1]]['parent']))
        return out

    def add_node(self, parent: int, fn, via: str):
        for k, nd in enumerate(self.nodes):
            if nd['fn'].ast is fn.ast:
                # a pass that had nothing to do handed the same program back
                self.nodes.append({'fn': fn, 'parent': nd['parent'], 'al': nd['al'], 'reported': nd['reported'],
                                   'via': via + '(same program)', 'canon': self.canon(k)})
                return len(self.nodes) - 1
        al = M.Alignment(self.nodes[parent]['fn'].ast, fn.ast)
        self.nodes.append({'fn': fn, 'parent': parent, 'al': al, 'reported': fn.edits is not None, 'via': via})
        self.stats.count('nodes', 'reported' if fn.edits is not None else 'opaque')
        return len(self.nodes) - 1

    # -- ops ---------------------------------------------------------------

    def do_take(self, op):
        from fpy2.strategies import StmtCursor, BlockCursor, ExprCursor
        ni = self.node(op['node'])
        f = self.nodes[ni]['fn']
        stmts = list(M.walk(f.ast))
        sp, s = stmts[op['k'] % len(stmts)]
        kind = op['kind']
        try:
            if kind == 'stmt':
                c = StmtCursor(f.ast, to_repo_stmt(sp))
                rec = {'node': ni, 'cursor': c, 'kind': 'stmt', 'paths': [sp], 'fps': [M.fingerprint(s)],
                       'hfps': [M.fingerprint(s, header_only=True)], 'locs': [getattr(s, 'loc', None)]}
            elif kind == 'region':
                block = M.resolve_block(f.ast, sp[:-1])
                lo = sp[-1]
                hi = min(len(block.stmts), lo + op['len'])
                c = BlockCursor(f.ast, to_repo_block(sp[:-1]), range(lo, hi))
                ps = [sp[:-1] + (i,) for i in range(lo, hi)]
                ss = [block.stmts[i] for i in range(lo, hi)]
                rec = {'node': ni, 'cursor': c, 'kind': 'region', 'paths': ps, 'fps': [M.fingerprint(x) for x in ss],
                       'hfps': [M.fingerprint(x, header_only=True) for x in ss], 'locs': [getattr(x, 'loc', None) for x in ss]}
            else:
                # any expression of the program, at any depth, including the headers of compound
                # statements (conditions, iterables, context expressions)
                from fpy2.transform.cursor import expr_sites
                cands = expr_sites(f.ast, lambda e: True)
                if not cands:
                    return
                c = cands[op['k'] % len(cands)]
                rec = self.expr_record(ni, c)
        except Exception as e:
            self.vio('take-valid-path-rejected', {'path': sp, 'kind': kind, 'exc': f'{type(e).__name__}: {e}'})
            return
        self.cursors.append(rec)
        self.stats.count('ops', 'take:' + kind)

    def expr_record(self, ni: int, c) -> dict:
        f = self.nodes[ni]['fn']
        sp = cursor_pos(c)[1]
        st = M.resolve(f.ast, sp)
        return {'node': ni, 'cursor': c, 'kind': 'expr', 'paths': [sp], 'fps': [M.fingerprint(st)],
                'hfps': [M.fingerprint(st, header_only=True)], 'locs': [getattr(st, 'loc', None)],
                'efp': M.fingerprint(c.resolve())}

    def model_image(self, rec, target: int):
        """
        The model's account of where the cursor's statements are in node `target`:
        a list (one per original statement) of (position, exact) or None when the
        chain is broken (unrelated program / opaque pass).
        """
        chain = self.ancestors(target)
        src = self.canon(rec['node'])
        if src not in chain:
            return 'unrelated'
        steps = list(reversed(chain[:chain.index(src)]))   # children after the cursor's node, in order
        if any(not self.nodes[k]['reported'] for k in steps):
            return 'opaque'
        out = []
        self._untouched = []
        self._rewritten_before_lost = []
        for p in rec['paths']:
            pos = ('path', p)
            exact = True         # every step so far matched the statement verbatim and unambiguously
            verbatim = True
            untouched = True     # ... and no step was aimed at it, at anything beneath it or at anything around it
            rewritten = False    # some step replaced the statement itself (its image became a span) before track was lost
            for k in steps:
                al = self.nodes[k]['al']
                if pos[0] == 'span':
                    rewritten = True
                if pos[0] == 'path':
                    c = al.stmt.get(pos[1])
                    aimed = self.nodes[k].get('aimed')
                    if aimed is None or c is None or c[0] != 'same' or c[2] \
                            or any(beneath_or_at(pos[1], a) or beneath_or_at(a, pos[1]) for a in aimed):
                        untouched = False
                else:
                    untouched = False
                if pos[0] == 'path':
                    if c is not None and c[0] == 'same' and c[2]:
                        exact = False
                    if c is not None and c[0] == 'inside':
                        verbatim = False
                    if c is not None and c[0] == 'rewritten' and _block_has_duplicates(al, pos[1][:-1]):
                        pos = ('span', c[1], 0, al.block[pos[1][:-1]][2])
                        continue
                pos = al.push(pos)
            out.append((pos, exact, verbatim))
            self._untouched.append(untouched and exact and verbatim and pos[0] == 'path')
            self._rewritten_before_lost.append(rewritten)
        return out

    def do_forward(self, op):
        from fpy2.strategies import TransformReferenceError
        if not self.cursors:
            return
        rec = self.cursors[op['cursor'] % len(self.cursors)]
        ti = self.node(op['node'])
        self.check_forward(rec, ti, 'forward')

    def check_forward(self, rec, ti: int, how: str):
        from fpy2.strategies import TransformReferenceError, StmtCursor, BlockCursor, ExprCursor
        f = self.nodes[ti]['fn']
        model = self.model_image(rec, ti)
        untouched = list(self._untouched) if not isinstance(model, str) else []
        rewritten_before_lost = list(self._rewritten_before_lost) if not isinstance(model, str) else []
        try:
            res = f.forward(rec['cursor'])
            raised = None
        except TransformReferenceError as e:
            res, raised = None, e
        except Exception as e:
            self.vio('forward-raised-other-error', {'exc': f'{type(e).__name__}: {e}', 'cursor': str(rec['paths'])}, where_kind=how)
            return None
        self.stats.count('forward', 'raised' if raised else 'resolved')
        if raised is not None:
            self.stats.count('forward_model', model if isinstance(model, str) else model[0][0][0])
            return None
        # it resolved
        if model in ('unrelated', 'opaque'):
            self.vio('forward-across-' + model, {'cursor': str(rec['paths']), 'result': str(res)}, where_kind=how)
            return res
        if res.func is not f.ast:
            self.vio('forward-wrong-program', {'cursor': str(rec['paths'])}, where_kind=how)
            return res
        try:
            rp = cursor_pos(res)
            resolved = res.resolve()
        except Exception as e:
            self.vio('forward-does-not-resolve', {'exc': f'{type(e).__name__}: {e}'}, where_kind=how)
            return res
        if rec['kind'] == 'expr':
            # an expression cursor that resolves must name the same expression (structurally), in the
            # statement the model says its statement became -- whatever else changed around it
            (pos, exact, verbatim), = model
            ok = rp[0] == 'expr' and M.fingerprint(resolved) == rec['efp'] \
                and (pos[0] != 'path' or not exact or rp[1] == pos[1])
            if not ok:
                self.vio('forward-expr-unrelated', {'model': repr(pos), 'result': repr(rp), 'got': _fmt(resolved)}, where_kind=how)
            return res
        if rp[0] == 'expr':
            self.vio('forward-kind-changed', {'result': repr(rp)}, where_kind=how)
            return res
        rblock = rp[1][:-1] if rp[0] == 'stmt' else rp[1]
        rlo, rhi = (rp[1][-1], rp[1][-1] + 1) if rp[0] == 'stmt' else (rp[2], rp[3])
        if rhi <= rlo:
            self.vio('forward-empty-region', {'result': repr(rp)}, where_kind=how)
            return res
        rstmts = [resolved] if rp[0] == 'stmt' else list(resolved)
        R = {rblock + (i,) for i in range(rlo, rhi)}
        members = set(rec['paths'])
        classes = sorted({pos[0] for pos, _, _ in model})
        self.stats.count('forward_model', '+'.join(classes) if len(model) > 1 else classes[0])
        # (a) the answer holds no statement that is the image of a *different* old statement
        for q, (qpos, qexact) in self.all_images(rec['node'], ti).items():
            if q in members or any(beneath_or_at(q, o) or beneath_or_at(o, q) for o in members):
                continue
            if qpos[0] == 'path' and qexact and qpos[1] in R:
                self.vio('forward-unrelated', {'why': 'the answer includes the image of another statement', 'other': repr(q),
                                               'its_image': repr(qpos[1]), 'result': repr(rp), 'cursor': repr(sorted(members))},
                         where_kind=how)
                return res
        # (d) statements that every step kept verbatim and that no step was aimed at (nor at anything
        #     beneath or around them) are named afterwards exactly as before: what a pass inserted next
        #     to them belongs to the site it was aimed at
        if untouched and all(untouched):
            want = {pos[1] for pos, _, _ in model}
            if R != want:
                self.vio('forward-unrelated', {'why': 'statements no pass touched or was aimed at: the answer is not exactly their images',
                                               'images': repr(sorted(want)), 'result': repr(rp)}, where_kind=how)
                return res
        # (b) per member: a survivor must be in the answer; what replaced a rewritten one bounds it
        spans = []
        for mi, (o, fp_o, hfp_o, loc_o, (pos, exact, verbatim)) in enumerate(zip(rec['paths'], rec['fps'], rec['hfps'], rec['locs'], model)):
            if pos[0] == 'path':
                if exact and pos[1] not in R:
                    self.vio('forward-unrelated', {'why': 'the descendant of the named statement is not in the answer',
                                                   'model': repr(pos), 'result': repr(rp)}, where_kind=how)
                    return res
                if exact:
                    t = M.resolve(f.ast, pos[1])
                    if verbatim and M.fingerprint(t) != fp_o:
                        self.vio('forward-unrelated', {'why': 'model and program disagree on the survivor', 'model': repr(pos)}, where_kind=how)
                        return res
                else:
                    # duplicates: demand only that an equivalent statement is in the answer
                    if verbatim and not any(M.fingerprint(x) == fp_o for x in rstmts):
                        self.vio('forward-unrelated', {'why': 'no statement equivalent to the original in the answer',
                                                       'model': repr(pos), 'result': repr(rp)}, where_kind=how)
                        return res
                spans.append((pos[1][:-1], pos[1][-1], pos[1][-1] + 1))
            elif pos[0] == 'span':
                spans.append((pos[1], pos[2], pos[3]))
            else:
                # beneath a rewritten statement: raising is expected; resolving only to the same statement
                ok = any(M.fingerprint(x) == fp_o or (loc_o is not None and getattr(x, 'loc', None) == loc_o) for x in rstmts)
                if not ok and rewritten_before_lost[mi]:
                    # an earlier step had replaced the statement itself: what descends from it no longer looks
                    # like it, and the model cannot say more (counted, not alarmed)
                    self.stats.count('undecided', 'forward-of-a-rewritten-statement-beneath-a-rewritten-one')
                    ok = True
                if not ok:
                    self.vio('forward-unrelated', {'why': 'statement beneath a rewritten one resolved elsewhere', 'result': repr(rp)}, where_kind=how)
                    return res
                spans.append(None)
        # (c) the answer lies between the images of the nearest surviving neighbours of the named
        #     statements (in the program the cursor was taken on): what intermediate passes put
        #     next to the statement may be part of its image, what lies beyond a surviving
        #     neighbour may not
        imgs = self.all_images(rec['node'], ti)
        ob = rec['paths'][0][:-1]
        lo_i = min(p[-1] for p in rec['paths'])
        hi_i = max(p[-1] for p in rec['paths'])
        if all(p[:-1] == ob for p in rec['paths']):
            before = [(q[-1], im[0][1]) for q, im in imgs.items()
                      if q[:-1] == ob and q[-1] < lo_i and im[0][0] == 'path' and im[1]]
            after = [(q[-1], im[0][1]) for q, im in imgs.items()
                     if q[:-1] == ob and q[-1] > hi_i and im[0][0] == 'path' and im[1]]
            if before:
                _, pb = max(before)
                if pb[:-1] == rblock and rlo <= pb[-1]:
                    self.vio('forward-unrelated', {'why': 'the answer starts at or before the image of an earlier surviving statement',
                                                   'neighbour_image': repr(pb), 'result': repr(rp)}, where_kind=how)
                    return res
            if after:
                _, pa = min(after)
                if pa[:-1] == rblock and rhi > pa[-1]:
                    self.vio('forward-unrelated', {'why': 'the answer reaches the image of a later surviving statement',
                                                   'neighbour_image': repr(pa), 'result': repr(rp)}, where_kind=how)
                    return res
            # and it lies in the block that the statements' own block became, when the model knows it
            known = [sp[0] for sp in spans if sp is not None]
            if known and len(set(known)) == 1 and rblock != known[0]:
                self.vio('forward-unrelated', {'why': 'the answer lies in another block', 'model_block': repr(known[0]),
                                               'result': repr(rp)}, where_kind=how)
                return res
        return res

    def all_images(self, src: int, target: int) -> dict:
        """Where the model puts every statement of node `src` in node `target`: path -> (position, exact)."""
        key = (self.canon(src), self.canon(target))
        cache = self.__dict__.setdefault('_img_cache', {})
        if key in cache:
            return cache[key]
        f = self.nodes[self.canon(src)]['fn']
        out = {}
        for p, _ in M.walk(f.ast):
            m = self.model_image({'node': src, 'paths': [p]}, target)
            if isinstance(m, str):
                break
            pos, exact, verbatim = m[0]
            out[p] = (pos, exact)
        cache[key] = out
        return out

    def do_apply(self, op):
        from fpy2.strategies import (TransformReferenceError, TransformDeclined, TransformError, StmtCursor, ExprCursor,
                                     FuncBody)
        ni = self.node(op['node'])
        f = self.nodes[ni]['fn']
        name, params = op['strategy'], op['params']
        if sum(1 for _ in M.walk(f.ast)) > MAX_STMTS:
            # repeated unrolling of nested loops grows a program geometrically: bounded, not explored
            self.stats.count('undecided', 'program-too-large-to-rewrite-further')
            return
        pre_list(name, f, params)
        try:
            sites, refs = list_sites(name, f, params)
        except Exception as e:
            # the property says what a listing *contains*, not that every strategy can analyse every
            # derived program: an analysis that gives up is counted, not alarmed
            self.stats.count('probes', f'listing-raised:{name}:{type(e).__name__}')
            return
        k = len(sites)
        wk = op['where'][0]
        if name in EXPR_SITED and len(self.cursors) < 40:
            # the sites a listing hands out are cursors like any other: they must forward sensibly too
            for c in sites[:3]:
                try:
                    self.cursors.append(self.expr_record(ni, c))
                except Exception:
                    pass
        self.stats.count('ops', f'apply:{wk}')
        self.stats.add('distinct', f'{name}|{wk}|k={min(k, 3)}|{self.hist["root"]}')
        self.stats.count('roots', 'generated' if self.hist['root'].startswith('gen:') else 'corpus')
        before_fp = M.fingerprint(f.ast)
        site_targets = [site_stmt_paths(c) for c in sites]      # the statements each site names
        site_paths = [t[0] for t in site_targets]
        allowed = None
        must_change = []
        where = None
        expect_raise = None
        cursor_has_sites = False
        if wk == 'idx':
            if k == 0:
                where, expect_raise = 0, 'no-sites'
            else:
                j = op['where'][1] % k
                where = j
                allowed = list(site_targets[j])
                must_change = [site_targets[j]]
        elif wk == 'none':
            where = None
            allowed = [p for t in site_targets for p in t]
            must_change = [t for t in site_targets if not any(q != t[0] and beneath_or_at(t[0], q) for q in site_paths)]
            if name == 'rw_sum':
                must_change = []     # overlapping windows decline instead
        elif wk == 'bad':
            v = op['where'][1]
            if v in ('True', 'False', '1.0'):
                # a bool is not an index (though it is an int), nor is a float
                where = {'True': True, 'False': False, '1.0': 1.0}[v]
                expect_raise = 'not-an-index'
            else:
                where = {-1: -1, 0: k, 7: k + 7, 1000: 1000 + k}[v]
                expect_raise = 'bad-index'
        elif wk == 'foreign':
            g = self.other
            try:
                where = StmtCursor(g.ast, FuncBody().stmt(0))
            except Exception:
                return
            expect_raise = 'foreign-cursor'
        elif wk == 'wrongkind':
            if name in EXPR_SITED or not self.cursors:
                return
            exprs = [c for c in self.cursors if c['kind'] == 'expr' and self.canon(c['node']) == self.canon(ni)]
            if not exprs:
                return
            where = exprs[op['where'][1] % len(exprs)]['cursor']
            expect_raise = 'expression-cursor-for-statement-sites'
        elif wk == 'cursor':
            if not self.cursors:
                return
            rec = self.cursors[op['where'][1] % len(self.cursors)]
            if rec['kind'] == 'expr' and name not in EXPR_SITED:
                return
            where = rec['cursor']
            model = self.model_image(rec, ni)
            if model in ('unrelated', 'opaque'):
                expect_raise = 'cursor-' + model
            else:
                # the rewrite may touch only what lies at or beneath the cursor's image
                allowed = []
                for pos, exact, verbatim in model:
                    if pos[0] == 'path':
                        allowed.append(pos[1])
                    elif pos[0] == 'span':
                        allowed += [pos[1] + (i,) for i in range(pos[2], pos[3])]
                if not allowed:
                    allowed = None   # model lost track: only the generic checks apply
                if rec['kind'] != 'expr' and self.canon(rec['node']) == self.canon(ni) and name != 'rw_sum':
                    # a cursor of this very program: the aim is exactly the listed sites at or beneath it
                    # (a candidate of several statements only when all of them are); none -> rejected
                    inside = [t for t in site_targets if all(any(beneath_or_at(p, mp) for mp in rec['paths']) for p in t)]
                    self.stats.count('ops', 'apply:cursor-of-this-program')
                    if inside:
                        cursor_has_sites = True
                        firsts = [t[0] for t in inside]
                        allowed = [p for t in inside for p in t]
                        must_change = [t for t in inside if not any(q != t[0] and beneath_or_at(t[0], q) for q in firsts)]
                    else:
                        expect_raise = 'cursor-names-no-site'
        try:
            g = strategy_call(name, f, where, params, self.rules.get(name))
            raised = None
        except TransformError as e:
            g, raised = None, e
        except (RuntimeError, ValueError, TypeError, NotImplementedError, AssertionError, KeyError, IndexError, AttributeError) as e:
            g, raised = None, e
        self.stats.count('apply_outcome', 'raised:' + type(raised).__name__ if raised else 'ok')
        if M.fingerprint(f.ast) != before_fp:
            self.vio('source-program-modified', {'strategy': name}, strategy=name, where_kind=wk)
        if raised is not None:
            if wk == 'idx' and expect_raise is None and isinstance(raised, TransformError):
                # a listed site must be rewritable by its index (a refusal must not consume an index)
                self.vio('listed-index-rejected', {'j': where, 'k': k, 'exc': f'{type(raised).__name__}: {raised}'[:300]}, strategy=name, where_kind=wk)
            elif wk == 'cursor' and cursor_has_sites and expect_raise is None and isinstance(raised, TransformError):
                # a cursor of this program with listed sites at or beneath it must rewrite them (refused
                # candidates beneath it are skipped, as the listing within it says)
                self.vio('cursor-naming-sites-rejected', {'k': k, 'exc': f'{type(raised).__name__}: {raised}'[:300]}, strategy=name, where_kind=wk)
            elif wk == 'none' and k > 0 and isinstance(raised, TransformError):
                self.vio('where-none-rejected-with-sites', {'k': k, 'exc': f'{type(raised).__name__}: {raised}'[:300]}, strategy=name, where_kind=wk)
            self.stats.count('faults', 'strategy-declined-or-failed')
            return
        # it returned a program
        if expect_raise is not None:
            # k == 0 with where=0 is "any other index": must be rejected as well
            self.vio('bad-where-accepted', {'why': expect_raise, 'where': repr(where)[:120], 'k': k}, strategy=name, where_kind=wk)
            return
        if M.fingerprint(g.ast) == before_fp:
            # an aim that returned without changing anything (probe; a cursor naming no candidate
            # is documented to raise)
            self.stats.count('probes', f'aim-returned-unchanged-program:{wk}')
            if wk == 'cursor':
                self.vio('cursor-aim-silently-did-nothing', {'where': repr(cursor_pos(where))[:120], 'k': k}, strategy=name, where_kind=wk)
        child = self.add_node(ni, g, f'{name}:{wk}')
        if self.nodes[child]['parent'] == ni and 'aimed' not in self.nodes[child]:
            # the statements this step was aimed at (None: unknown), for rule (d) of the forward oracle
            if wk == 'idx':
                self.nodes[child]['aimed'] = list(site_targets[where])
            elif wk == 'none':
                self.nodes[child]['aimed'] = [p for t in site_targets for p in t]
            elif wk == 'cursor' and allowed is not None:
                self.nodes[child]['aimed'] = list(allowed)
        al = self.nodes[child]['al']
        changed = M.changed_old_paths(al)
        if allowed is not None:
            for p in changed:
                ok = any(beneath_or_at(p, a) or beneath_or_at(a, p) for a in allowed)
                if not ok:
                    self.vio('rewrite-outside-named-site', {'changed': repr(p), 'named': repr(allowed)[:200], 'class': repr(al.stmt[p])[:120],
                                                           'old': _fmt(M.resolve(f.ast, p))}, strategy=name, where_kind=wk)
                    break
        for tgt in must_change:
            cs = [al.stmt.get(p) for p in tgt]
            if cs and all(c is not None and c[0] == 'same' for c in cs) and not _grew_around(al, tgt):
                self.vio('listed-site-not-rewritten', {'site': repr(tgt), 'k': k}, strategy=name, where_kind=wk)
                break
        # "index j rewrites the j-th listed site": aiming by the listed site itself gives the same program
        # (an expression cursor names its expression exactly; a statement cursor takes every candidate at
        # or beneath it, so the two agree when no other listed site lies beneath the j-th)
        alone = False
        if wk == 'idx':
            alone = name in EXPR_SITED or not any(i != where and any(beneath_or_at(q, t) for q in qs for t in site_targets[where])
                                                  for i, qs in enumerate(site_targets))
        if wk == 'idx' and name not in RULES and hasattr(sites[where], 'resolve') and alone:
            try:
                g3 = strategy_call(name, f, sites[where], params, None)
            except Exception as e:
                self.vio('listed-site-rejected-as-aim', {'j': where, 'k': k, 'exc': f'{type(e).__name__}: {e}'[:200]}, strategy=name, where_kind=wk)
            else:
                known = set(_IDENT.findall(f.format()))
                if _alpha(g3.format(), known) != _alpha(g.format(), known):
                    self.vio('index-and-listed-site-differ', {'j': where, 'k': k, 'site': str(cursor_pos(sites[where]))[:120],
                                                              'diff': _text_diff(_alpha(g.format(), known), _alpha(g3.format(), known))},
                             strategy=name, where_kind=wk)
        # "aiming at nothing rewrites all k", at expression granularity for expression rules: none of the
        # listed expressions is still there (the rules' right-hand sides do not contain their left-hand sides)
        if wk == 'none' and name in ('rw_fma', 'rw_dbl'):
            gfp = M.fingerprint(g.ast)
            for j, cur in enumerate(sites):
                try:
                    efp = M.fingerprint(cur.resolve())
                except Exception:
                    continue
                if _fp_contains(gfp, efp):
                    self.vio('listed-site-not-rewritten', {'j': j, 'k': k, 'site': str(cursor_pos(cur))[:120], 'expr': _fmt(cur.resolve()),
                                                           'result': g.format()[:400]}, strategy=name, where_kind=wk)
                    break
        # "aiming at nothing rewrites all k", for the loop rewrites: the same program as aiming at the
        # listed sites one at a time, last listed first (a site listed later never precedes an earlier one,
        # so the earlier indices stay valid; what a rewrite emits comes after them)
        if wk == 'none' and name in LOOP and 2 <= k <= 4:
            try:
                h = f
                for j in range(k - 1, -1, -1):
                    h = strategy_call(name, h, j, params, None)
            except Exception:
                self.stats.count('undecided', 'one-at-a-time-composition-declined')
            else:
                self.stats.count('ops', 'apply:none-versus-one-at-a-time')
                # (compared with every invented name erased: the one-at-a-time program copies the names an
                # earlier step invented into both copies of a body, the all-at-once program invents new ones)
                known = set(_IDENT.findall(f.format()))
                if _erase(h.format(), known) != _erase(g.format(), known):
                    self.vio('all-sites-differs-from-one-at-a-time', {'k': k, 'diff': _text_diff(_erase(g.format(), known), _erase(h.format(), known))},
                             strategy=name, where_kind=wk)
        # a rule object reused across applications answers as a freshly made one does
        if name in RULES:
            try:
                g2 = strategy_call(name, f, where, params, None)
                if M.fingerprint(g2.ast) != M.fingerprint(g.ast):
                    self.vio('reused-rule-differs-from-fresh-rule', {'where': repr(where)[:80]}, strategy=name, where_kind=wk)
                elif (g.edits.edits, g.edits.exprs_rewritten) != (g2.edits.edits, g2.edits.exprs_rewritten):
                    self.vio('reused-rule-differs-from-fresh-rule', {'what': 'edit log', 'reused': repr(g.edits.edits)[:200],
                                                                   'fresh': repr(g2.edits.edits)[:200]}, strategy=name, where_kind=wk)
            except Exception as e:
                self.vio('reused-rule-differs-from-fresh-rule', {'fresh-raised': f'{type(e).__name__}: {e}'[:200]}, strategy=name, where_kind=wk)
        # "...and only it": a listed site nested inside the aimed one is carried along intact, so
        # wherever it reappears its own statements reappear exactly as often as it does
        if wk == 'idx' and name not in EXPR_SITED and name not in RULES:
            tgt = site_paths[where]
            fo = _fp_counts(f.ast)
            fg = _fp_counts(g.ast)
            for p in site_paths:
                if p == tgt or not beneath_or_at(p, tgt):
                    continue
                inner = M.resolve(f.ast, p)
                fpi = M.fingerprint(inner)
                cg = fg.get(fpi, 0)
                if cg < 1 or fo.get(fpi, 0) != 1:
                    continue
                for q, x in _descendants(inner):
                    fx = M.fingerprint(x)
                    if fo.get(fx, 0) == 1 and fg.get(fx, 0) != cg:
                        self.vio('nested-site-also-rewritten', {'aimed': repr(tgt), 'nested': repr(p), 'copies_of_nested_site': cg,
                                                                'copies_of_its_statement': fg.get(fx, 0), 'stmt': _fmt(x)},
                                 strategy=name, where_kind=wk)
                        break
        # statements the reported edits did not touch are unchanged
        if g.edits is not None:
            self.check_edits(f, g, al, name, wk)
        # every cursor of the parent still forwards sensibly across this one step
        for rec in self.cursors:
            if self.canon(rec['node']) == self.canon(ni):
                self.check_forward(rec, child, 'after-apply')

    def check_edits(self, f, g, al, name, wk):
        log = g.edits
        if log.source is not f.ast or log.result is not g.ast:
            self.vio('edit-log-names-other-programs', {}, strategy=name, where_kind=wk)
            return
        touched = []
        for e in log.edits:
            b = from_repo_block(e.block_path)
            touched.append((b, e.index, e.index + e.removed, e.inserted))
        # the arithmetic of the log: a block that survives grows by exactly what its edits say
        for b, (nb, anchors, nlen) in al.block.items():
            ob = M.resolve_block(f.ast, b)
            if ob is None:
                continue
            # only blocks whose enclosing statements all survive (not beneath a reported edit)
            if any(beneath_or_at(b, tb + (i,)) for tb, lo, hi, ins in touched for i in range(lo, hi)):
                continue
            delta = sum(ins - (hi - lo) for tb, lo, hi, ins in touched if tb == b)
            if len(ob.stmts) + delta != nlen:
                self.vio('edit-log-miscounts', {'block': repr(b), 'old_len': len(ob.stmts), 'new_len': nlen,
                                                'edits_say': delta, 'edits': repr([t for t in touched if t[0] == b])[:200]},
                         strategy=name, where_kind=wk)
                return
        if wk == 'whole-program' and not getattr(log, 'exprs_preserved', False):
            # the pass does not claim to have left the expressions of surviving statements alone
            # (`EditLog.exprs_preserved` is False: it may pin a context or fold a constant in a statement it
            # keeps), so a changed header is no unreported change; the arithmetic above still binds it
            return
        for p, c in al.stmt.items():
            if c[0] == 'same':
                continue
            # p changed (or is beneath a change): some reported edit must cover it or lie beneath it
            cov = False
            for b, lo, hi, ins in touched:
                for i in range(lo, max(hi, lo + 1)):
                    q = b + (i,)
                    if beneath_or_at(p, q) or beneath_or_at(q, p):
                        cov = True
                if hi == lo and (beneath_or_at(b, p)):
                    cov = True
            if not cov and c[0] != 'lost':
                dirty = [from_repo_stmt(x) for x in getattr(log, 'exprs_rewritten', ())]
                if any(beneath_or_at(p, d) or beneath_or_at(d, p) for d in dirty):
                    continue
                self.vio('unreported-change', {'path': repr(p), 'class': repr(c)[:120], 'edits': repr(touched)[:200],
                                               'old': _fmt(M.resolve(f.ast, p))}, strategy=name, where_kind=wk)
                return

    def do_opaque(self, op):
        ni = self.node(op['node'])
        f = self.nodes[ni]['fn']
        before_fp = M.fingerprint(f.ast)
        try:
            g = opaque_call(op['name'], f)
        except Exception:
            self.stats.count('faults', 'opaque-pass-failed')
            return
        if M.fingerprint(f.ast) != before_fp:
            self.vio('source-program-modified', {'strategy': op['name']}, strategy=op['name'])
        self.stats.count('ops', 'opaque:' + op['name'])
        child = self.add_node(ni, g, op['name'])
        if g.edits is not None and self.nodes[child]['parent'] == ni:
            # a whole-program pass that does report its edits: the same account of them is demanded,
            # and every cursor of the parent forwards sensibly across this one step
            self.stats.count('ops', 'opaque-with-edit-log:' + op['name'])
            self.check_edits(f, g, self.nodes[child]['al'], op['name'], 'whole-program')
            for rec in self.cursors:
                if self.canon(rec['node']) == self.canon(ni):
                    self.check_forward(rec, child, 'after-pass')

    def do_with_rt(self, op):
        import fpy2 as fp
        ni = self.node(op['node'])
        f = self.nodes[ni]['fn']
        g = f.with_rt(fp.BytecodeInterpreter())
        # the same program: it keeps the same place in the chain
        self.nodes.append({'fn': g, 'parent': self.nodes[ni]['parent'], 'al': self.nodes[ni]['al'],
                           'reported': self.nodes[ni]['reported'], 'via': 'with_rt', 'canon': self.canon(ni)})
        self.stats.count('ops', 'with_rt')

    def do_list(self, op):
        from fpy2.ast.fpyast import ForStmt, WhileStmt, ContextStmt
        from fpy2.strategies import TransformReferenceError
        ni = self.node(op['node'])
        f = self.nodes[ni]['fn']
        name = op['strategy']
        pre_list(name, f, op.get('params') or {})
        try:
            sites, refs = list_sites(name, f, op.get('params') or {})
        except Exception as e:
            self.stats.count('probes', f'listing-raised:{name}:{type(e).__name__}')
            return
        self.stats.count('ops', 'list')
        sp = [cursor_pos(c) for c in sites]
        rp = [cursor_pos(c) for c, _ in refs]
        if set(map(repr, sp)) & set(map(repr, rp)):
            self.vio('site-also-refused', {'sites': repr(sp)[:200], 'refusals': repr(rp)[:200]}, strategy=name)
        if len(set(map(repr, sp))) != len(sp):
            self.vio('site-listed-twice', {'sites': repr(sp)[:200]}, strategy=name)
        for c in sites:
            try:
                c.resolve()
            except Exception as e:
                self.vio('listed-site-does-not-resolve', {'exc': str(e)[:200]}, strategy=name)
        # sure candidates: every loop for the loop rewrites
        accounted = {repr(x[1]) for x in sp} | {repr(x[1]) for x in rp}
        want = {'unroll_for': ForStmt, 'split': ForStmt, 'unroll_while': WhileStmt}.get(name)
        if want is not None:
            for p, s in M.walk(f.ast):
                if isinstance(s, want) and repr(p) not in accounted:
                    self.vio('candidate-neither-site-nor-refusal', {'path': repr(p), 'stmt': _fmt(s)}, strategy=name)
                    break
        if name == 'inline':
            # sure candidates: every call of an FPy function, wherever in an expression it stands
            from fpy2 import Function as _Function
            seen = set()
            for c in sites:
                try:
                    seen.add(id(c.resolve()))
                except Exception:
                    pass
            for c, _why in refs:
                try:
                    seen.add(id(c.resolve()))
                except Exception:
                    pass
            for node in _all_nodes(f.ast):
                if type(node).__name__ == 'Call' and isinstance(getattr(node, 'fn', None), _Function) and id(node) not in seen:
                    self.vio('candidate-neither-site-nor-refusal', {'call': _fmt(node)}, strategy=name)
                    break
        if name in ROUNDING:
            for p, s in M.walk(f.ast):
                if _canonical_rounding_block(s) and repr(p) not in accounted:
                    self.vio('candidate-neither-site-nor-refusal', {'path': repr(p), 'stmt': _fmt(s)}, strategy=name)
                    break
        # visit order: a `where` index counts sites outermost-first, in program order
        order = [x[1] for x in sp] if name not in EXPR_SITED else None
        if order is not None:
            walk_order = [p for p, _ in M.walk(f.ast)]
            idx = [walk_order.index(p) for p in order if p in walk_order]
            if idx != sorted(idx):
                self.vio('sites-not-in-visit-order', {'sites': repr(order)[:200]}, strategy=name)
        # an empty region of this program holds no site: listing within it gives nothing, aiming at it is rejected
        if op.get('within') is not None and op['within'] % 4 == 1:
            from fpy2.strategies import BlockCursor, TransformError
            stmts = list(M.walk(f.ast))
            spx, _ = stmts[op['within'] % len(stmts)]
            try:
                empty = BlockCursor(f.ast, to_repo_block(spx[:-1]), range(spx[-1], spx[-1]))
            except Exception:
                empty = None          # the library does not make empty regions: nothing to check
            if empty is not None:
                self.stats.count('ops', 'list-within-empty-region')
                try:
                    es, er = list_sites(name, f, op.get('params') or {}, empty)
                except TransformError:
                    es, er = [], []
                except Exception as e:
                    self.stats.count('probes', f'listing-raised:{name}:{type(e).__name__}')
                    es, er = [], []
                if es or er:
                    self.vio('within-not-the-sites-at-or-beneath', {'region': 'empty, at ' + repr(spx), 'expected': [],
                                                                    'got': [repr(cursor_pos(x)) for x in es][:6], 'refusals': len(er)}, strategy=name)
                if sites:
                    try:
                        strategy_call(name, f, empty, op.get('params') or {}, None)
                    except TransformError:
                        pass
                    except (ValueError, TypeError):
                        pass
                    except Exception as e:
                        self.stats.count('probes', f'aim-at-empty-region-raised:{type(e).__name__}')
                    else:
                        self.vio('bad-where-accepted', {'why': 'empty region', 'k': len(sites)}, strategy=name, where_kind='empty-region')
        # `within` narrows the listing to what lies at or beneath it
        if op.get('within') is not None and self.cursors:
            # two times out of three a cursor of this very program when there is one (the exact rule below)
            own = [x for x in self.cursors if self.canon(x['node']) == self.canon(ni) and x['kind'] != 'expr']
            pool = own if own and op['within'] % 3 else self.cursors
            rec = pool[op['within'] % len(pool)]
            if rec['kind'] == 'expr' and name not in EXPR_SITED:
                return
            model = self.model_image(rec, ni)
            try:
                ws, _ = list_sites(name, f, op.get('params') or {}, rec['cursor'])
            except TransformReferenceError:
                return
            except Exception as e:
                self.stats.count('probes', f'listing-raised:{name}:{type(e).__name__}')
                return
            if model in ('unrelated', 'opaque'):
                self.vio('within-across-' + model, {}, strategy=name)
                return
            full = set(map(repr, sp))
            for c in ws:
                if repr(cursor_pos(c)) not in full:
                    self.vio('within-lists-a-non-site', {'got': repr(cursor_pos(c))}, strategy=name)
            # a cursor of this very program names exactly the candidates at or beneath it (a candidate of
            # several statements only when all of them are)
            if rec['kind'] != 'expr' and self.canon(rec['node']) == self.canon(ni):
                members = rec['paths']
                self.stats.count('ops', 'list-within-exact')
                want_in = [repr(cursor_pos(c)) for c in sites
                           if all(any(beneath_or_at(p, mp) for mp in members) for p in site_stmt_paths(c))]
                got_in = [repr(cursor_pos(c)) for c in ws]
                if sorted(want_in) != sorted(got_in):
                    self.vio('within-not-the-sites-at-or-beneath', {'region': repr(members)[:200], 'expected': want_in[:6], 'got': got_in[:6]},
                             strategy=name)

    def run(self):
        for op in self.hist['ops']:
            kind = op['op']
            if kind == 'take':
                self.do_take(op)
            elif kind == 'apply':
                self.do_apply(op)
            elif kind == 'opaque':
                self.do_opaque(op)
            elif kind == 'with_rt':
                self.do_with_rt(op)
            elif kind == 'forward':
                self.do_forward(op)
            elif kind == 'list':
                self.do_list(op)
        # at the end every cursor is forwarded to every node (composition across the whole tree)
        for rec in self.cursors:
            for ti in range(len(self.nodes)):
                if self.canon(ti) != self.canon(rec['node']):
                    self.check_forward(rec, ti, 'final-sweep')
        return self.vios


def _grew_around(al, tgt) -> bool:
    """Whether statements were inserted next to a site that itself survives verbatim (a rewrite
    may keep the statement and put new ones before or after it)."""
    b = tgt[0][:-1]
    info = al.block.get(b)
    if info is None:
        return True
    _, anchors, nlen = info
    ob = M.resolve_block(al.old, b)
    lo_i, hi_i = tgt[0][-1], tgt[-1][-1]
    before = [(o, n) for o, n in anchors.items() if o < lo_i]
    after = [(o, n) for o, n in anchors.items() if o > hi_i]
    po, pn = max(before) if before else (-1, -1)
    no, nn = min(after) if after else (len(ob.stmts), nlen)
    if lo_i not in anchors or hi_i not in anchors:
        return True
    return (anchors[lo_i] - pn) != (lo_i - po) or (nn - anchors[hi_i]) != (no - hi_i)


def _fp_counts(func) -> dict:
    out: dict = {}
    for _, s in M.walk(func):
        k = M.fingerprint(s)
        out[k] = out.get(k, 0) + 1
    return out


def _descendants(stmt):
    for field, sub in M.block_fields(stmt):
        for i, c in enumerate(sub.stmts):
            yield (field, i), c
            yield from _descendants(c)


def _block_has_duplicates(al, bpath) -> bool:
    ob = M.resolve_block(al.old, bpath)
    b = al.block.get(bpath)
    if ob is None or b is None:
        return True
    nb = M.resolve_block(al.new, b[0])
    fo = [M.fingerprint(s) for s in ob.stmts]
    fn = [M.fingerprint(s) for s in nb.stmts] if nb is not None else []
    return len(set(fo)) != len(fo) or len(set(fn)) != len(fn)


def _canonical_rounding_block(s) -> bool:
    from fpy2.ast.fpyast import ContextStmt, Assign, ReturnStmt, Round, Var, UnderscoreId, NamedId
    if not isinstance(s, ContextStmt) or not isinstance(s.target, UnderscoreId):
        return False
    if len(s.body.stmts) != 1:
        return False
    b = s.body.stmts[0]
    if isinstance(b, Assign) and isinstance(b.target, NamedId) and b.type is None and isinstance(b.expr, Round) \
            and isinstance(b.expr.arg, Var):
        return True
    return False


_IDENT = re.compile(r'(?<![.\w])[A-Za-z_][A-Za-z_0-9]*')
_NOT_NAMES = frozenset(keyword.kwlist) | {'fp', 'range', 'len', 'abs', 'min', 'max', 'sum', 'enumerate', 'zip', 'int', 'float',
                                          'bool', 'list', 'tuple'}


def _alpha(text: str, known: set) -> str:
    """The text with every identifier the source program does not have (the fresh names a pass
    makes up, which come from a process-wide counter) renamed by order of first appearance."""
    names: dict = {}

    def sub(m):
        w = m.group(0)
        if w in known or w in _NOT_NAMES:
            return w
        return names.setdefault(w, f'${len(names)}')
    return _IDENT.sub(sub, text)


def _fp_contains(big, small) -> bool:
    """Whether the fingerprint `small` occurs anywhere inside the (nested-tuple) fingerprint `big`."""
    stack = [big]
    while stack:
        x = stack.pop()
        if x == small:
            return True
        if isinstance(x, tuple):
            stack.extend(x)
    return False


def _all_nodes(x, _seen=None):
    """Every AST node reachable from x (by reflection over slots, as the model's fingerprints do)."""
    if _seen is None:
        _seen = set()
    if M._is_ast(x):
        if id(x) in _seen:
            return
        _seen.add(id(x))
        yield x
        for name in M._slots(type(x)):
            try:
                v = getattr(x, name)
            except AttributeError:
                continue
            if name == 'fn':
                continue        # the callee object of a call: another program
            yield from _all_nodes(v, _seen)
    elif isinstance(x, (list, tuple)):
        for v in x:
            yield from _all_nodes(v, _seen)


def _erase(text: str, known: set) -> str:
    """The text with every identifier the source program does not have replaced by `$`."""
    # (a name ending in digits is erased too: an invented name may coincide with one that an earlier step
    # invented and that the source program therefore "has")
    return _IDENT.sub(lambda m: m.group(0) if ((m.group(0) in known and not m.group(0)[-1].isdigit()) or m.group(0) in _NOT_NAMES)
                      else '$', text)


def _text_diff(a: str, b: str) -> list:
    import difflib
    return [ln for ln in difflib.unified_diff(a.splitlines(), b.splitlines(), 'by-index', 'by-site', lineterm='', n=0)][:12]


def _fmt(s) -> str:
    try:
        return s.format()[:160]
    except Exception:
        return repr(s)[:160]


# --------------------------------------------------------------------------
# runs, minimisation, replay, batch

class HistoryTimeout(BaseException):
    """A history exceeded its wall-clock allowance (counted as undecided, never as a violation)."""


def run_history(hist: dict):
    w = World(hist)
    vios = w.run()
    return vios, w


def run(seed: int, tier: str) -> dict:
    st = core.Stats()
    violations = []
    r = random.Random(seed)
    import signal

    def _alarm(sig, frm):
        raise HistoryTimeout()
    old = signal.signal(signal.SIGALRM, _alarm)
    for i in range(4):
        hist = gen_history(r.randrange(1 << 62), tier)
        signal.alarm(HISTORY_TIME_LIMIT_S)
        try:
            vios, w = run_history(hist)
        except HistoryTimeout:
            st.count('undecided', 'history-time-limit')
            continue
        finally:
            signal.alarm(0)
        st.merge(w.stats.dump())
        st.count('histories', 'total')
        st.count('history_len', str(len(hist['ops'])))
        st.count('tree_nodes', 'total', len(w.nodes))
        st.add('shapes', core.digest([[o['op'], o.get('strategy'), (o.get('where') or [None])[0]] for o in hist['ops']]))
        if i == 0 and seed % 23 == 0:
            st.samples.append({'seed': hist['seed'], 'root': hist['root'], 'root_source': G.source(int(hist['root'][4:])) if hist['root'].startswith('gen:') else None,
                               'ops': [_short(o) for o in hist['ops']], 'nodes': [n['via'] for n in w.nodes],
                               'cursors': len(w.cursors)})
        for v in vios:
            v['seed'] = hist['seed']
            violations.append(v)
    signal.signal(signal.SIGALRM, old)
    return {'stats': st.dump(), 'violations': violations}


def _short(o):
    if o['op'] == 'apply':
        return f"apply {o['strategy']}{o['params']} where={o['where']}"
    if o['op'] == 'take':
        return f"take {o['kind']} #{o['k']}"
    if o['op'] == 'forward':
        return f"forward cursor#{o['cursor']} -> node#{o['node']}"
    if o['op'] == 'opaque':
        return f"opaque {o['name']}"
    if o['op'] == 'list':
        return f"list {o['strategy']} within={o['within']}"
    return o['op']


def _same(hist: dict, cls: str, strategy) -> bool:
    vios, _ = run_history(hist)
    return any(v['cls'] == cls and v['signature']['strategy'] == strategy for v in vios)


def minimise(v: dict) -> dict:
    hist = v['case']
    cls, strat = v['cls'], v['signature']['strategy']
    if not _same(hist, cls, strat):
        v['minimised'] = False
        return v
    ops = core.ddmin(hist['ops'], lambda sub: _same(dict(hist, ops=sub), cls, strat), max_tests=300)
    h2 = dict(hist, ops=ops)
    vios, _ = run_history(h2)
    vv = [x for x in vios if x['cls'] == cls and x['signature']['strategy'] == strat][0]
    vv['seed'] = v.get('seed', 0)
    vv['minimised'] = True
    vv['ops_before'] = len(hist['ops'])
    vv['ops_after'] = len(ops)
    return vv


def replay(path: str) -> int:
    import shutil
    import tempfile
    os.makedirs(os.path.join(core.VERIF, '.cache'), exist_ok=True)
    d = tempfile.mkdtemp(prefix='gen19-', dir=os.path.join(core.VERIF, '.cache'))
    os.environ['VERIF_GEN19_DIR'] = d
    try:
        return _replay(path)
    finally:
        shutil.rmtree(d, ignore_errors=True)


def _replay(path: str) -> int:
    with open(path) as f:
        v = json.load(f)
    vios, _ = run_history(v['case'])
    hits = [x for x in vios if x['cls'] == v['cls'] and x['signature']['strategy'] == v['signature']['strategy']]
    if hits:
        print(f"VIOLATION property={PROP} replay={path}")
        print(f"  class={hits[0]['cls']} detail={json.dumps(hits[0]['detail'], default=str)[:700]}")
        return core.EXIT_VIOLATION
    print(f'replay of {path}: no violation (class {v["cls"]} did not recur)')
    return core.EXIT_OK


def main(tier: str) -> int:
    import shutil
    import tempfile
    os.makedirs(os.path.join(core.VERIF, '.cache'), exist_ok=True)
    d = tempfile.mkdtemp(prefix='gen19-', dir=os.path.join(core.VERIF, '.cache'))
    os.environ['VERIF_GEN19_DIR'] = d
    try:
        return _main(tier)
    finally:
        shutil.rmtree(d, ignore_errors=True)


def _main(tier: str) -> int:
    budget = {'quick': 45.0, 'thorough': 900.0}[tier]
    budget = float(os.environ.get('VERIF_BUDGET_S', budget))
    res = core.run_batch(PROP, 'checks.c19', 'run', tier=tier, budget_s=budget, max_runs=None, chunk=1)
    st: core.Stats = res['stats']
    known = core.load_known(PROP)
    code = core.report(PROP, res['violations'], known, res['harness_errors'], minimise=minimise)
    c = st.counters
    wall = res['wall_s']
    hists = c.get('histories', {}).get('total', 0)
    coverage = {
        'evaluations': hists,
        'distinct_nontrivial': len(st.sets.get('shapes', ())),
        'rule': ('One evaluation = one seeded operation history (4-16 ops: take cursor / aim a strategy / opaque pass / '
                 'with_rt / forward / list) executed against the real strategies on a derivation tree, every answer compared '
                 'with the alignment model, plus a final sweep forwarding every cursor to every node. Distinct = distinct '
                 'history shapes (sequence of op kind, strategy, where-kind); every history has at least four ops.'),
        'samples': st.samples[:3] or [{'note': 'no sample drawn'}],
        'simulated_runs': res['runs'],
        'runs_per_hour': int(res['runs'] / wall * 3600) if wall else 0,
        'seeds': {'VERIF_SEED': res['base_seed'], 'first_run_seeds': res['seeds'][:8]},
        'simulated_time': {'unit': 'history operations executed', 'total': sum(c.get('ops', {}).values())},
        'ops': dict(c.get('ops', {})),
        'apply_outcomes': dict(c.get('apply_outcome', {})),
        'faults_fired': dict(c.get('faults', {})),
        'forward': dict(c.get('forward', {})),
        'forward_model_classes': dict(c.get('forward_model', {})),
        'derivation_nodes': dict(c.get('nodes', {})),
        'applies_by_root_kind': dict(c.get('roots', {})),
        'strategy_where_k_root_distinct': len(st.sets.get('distinct', ())),
        'undecided': dict(c.get('undecided', {})),
        'probes': dict(c.get('probes', {})),
        'components': {
            'real': ['fpy2.strategies.*', 'fpy2.transform.* (cursor, path, utils, every aimable pass)', 'fpy2.function.Function.forward/rebase/with_edits/with_ast/with_rt'],
            'stub': ['none; the oracle is the independent alignment model in checks/c19_model.py'],
        },
        'engine_parts_used': 'seeded history generator, failure ops (declining strategies, bad aims), reference model, ddmin minimiser; no scheduler or clock (the API is synchronous)',
        'workers': res['workers'],
        'exhaustive': False,
    }
    core.write_evidence(PROP, tier, 'exploration', coverage, wall_s=wall, violations=len(res['violations']),
                        assumptions=['root programs have no two structurally equivalent statements; where a derived program does, the model only demands equivalence, not an exact path',
                                     'a forward that raises TransformReferenceError is always acceptable (the property allows it); the fraction that resolves is reported',
                                     'the image of a rewritten statement may be any non-empty region within what replaced it (between its nearest surviving neighbours)'])
    print(f'{PROP} {tier}: runs={res["runs"]} histories={hists} shapes={coverage["distinct_nontrivial"]} '
          f'violations={len(res["violations"])} wall={wall:.1f}s')
    return code
