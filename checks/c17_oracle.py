"""
Independent oracle for C17, written from the property text and the documented
meaning of the rounding modes.  Uses only `fractions.Fraction` and integer
arithmetic; shares no code with `fpy2`.

A *grid* describes a number format as far as rounding position is concerned:

    {'kind': 'float', 'p': int, 'emin': int|None, 'maxpos': Fraction|None, 'maxneg': Fraction|None}
    {'kind': 'fixed', 'nmin': int,                 'maxpos': Fraction|None, 'maxneg': Fraction|None}

`maxpos` / `maxneg` are magnitudes of the largest positive / negative value
(None = unbounded).  `n_arg` is the explicit rounding position of
`round_at(x, n)` (None for `round`).
"""

from fractions import Fraction
from math import isqrt


class Rational:
    """|x| for a rational operand."""

    def __init__(self, q: Fraction):
        assert q > 0
        self.q = Fraction(q)

    def floor_mul(self, s: Fraction) -> int:
        v = self.q * s
        return v.numerator // v.denominator

    def cmp(self, y: Fraction) -> int:
        return (self.q > y) - (self.q < y)

    def describe(self):
        return f'{self.q.numerator}/{self.q.denominator}'


class Sqrt:
    """|x| = sqrt(a) for a positive rational a (possibly irrational)."""

    def __init__(self, a: Fraction):
        assert a > 0
        self.a = Fraction(a)

    def floor_mul(self, s: Fraction) -> int:
        v = self.a * s * s
        n, d = v.numerator, v.denominator
        # floor(sqrt(n/d)) = floor(sqrt(n*d) / d) = isqrt(n*d) // d
        return isqrt(n * d) // d

    def cmp(self, y: Fraction) -> int:
        if y < 0:
            return 1
        y2 = y * y
        return (self.a > y2) - (self.a < y2)

    def describe(self):
        return f'sqrt({self.a.numerator}/{self.a.denominator})'


def floor_log2(x) -> int:
    """floor(log2 |x|) for an exact real with floor_mul/cmp."""
    # find e with 2^e <= |x| < 2^(e+1)
    e = 0
    if x.cmp(Fraction(1)) >= 0:
        while x.cmp(Fraction(2) ** (e + 1)) >= 0:
            e += 1
    else:
        while x.cmp(Fraction(2) ** e) < 0:
            e -= 1
    return e


def quantum_exp(grid: dict, x, n_arg: int | None) -> int:
    """
    Exponent of the spacing of representable values around |x|: the values
    representable near x are the integer multiples of 2^quantum_exp.
    """
    if grid['kind'] == 'float':
        e = floor_log2(x)
        n = e - grid['p']
        if grid['emin'] is not None:
            n = max(n, grid['emin'] - grid['p'])
    else:
        n = grid['nmin']
    if n_arg is not None:
        n = max(n, n_arg)
    return n + 1


def round_to_int(j: int, exact: bool, half: int, mode: str, negative: bool) -> int:
    """
    Rounds the real number v, j <= v < j+1, to an integer under `mode`.
    `exact`: v == j.  `half`: sign of (v - (j + 1/2)).
    The real being rounded is a *magnitude*; `negative` is the operand's sign,
    which matters for the two directed modes.
    """
    if exact:
        return j
    if mode == 'RTZ':
        return j
    if mode == 'RAZ':
        return j + 1
    if mode == 'RTP':
        return j if negative else j + 1
    if mode == 'RTN':
        return j + 1 if negative else j
    if mode == 'RTO':
        return j if j % 2 == 1 else j + 1
    if mode == 'RTE':
        return j if j % 2 == 0 else j + 1
    if mode == 'RNE':
        if half < 0:
            return j
        if half > 0:
            return j + 1
        return j if j % 2 == 0 else j + 1
    if mode == 'RNA':
        return j if half < 0 else j + 1
    raise ValueError(mode)


def expectation(grid: dict, x, negative: bool, k: int, mode: str, n_arg: int | None = None) -> dict:
    """
    For the operand with magnitude `x` (Rational / Sqrt) and sign `negative`:
    the two neighbours, whether x is representable, whether the upper neighbour
    is out of range (top gap), and the exact number of the 2^k draws that must
    round away from zero.
    """
    qe = quantum_exp(grid, x, n_arg)
    q = Fraction(2) ** qe
    m = x.floor_mul(1 / q)
    lo = m * q
    hi = lo + q
    representable = x.cmp(lo) == 0
    u = q / (1 << k)
    jt = x.floor_mul(1 / u)
    j = jt - m * (1 << k)
    assert 0 <= j < (1 << k)
    exact = x.cmp(jt * u) == 0
    half = x.cmp((Fraction(jt) + Fraction(1, 2)) * u)
    # parity of the k-digit-extended significand is the parity of jt
    # (for k >= 1 that is the parity of j)
    away_total = round_to_int(jt, exact, half, mode, negative) - m * (1 << k)
    mx = grid['maxneg'] if negative else grid['maxpos']
    top_gap = False
    beyond = False
    if mx is not None:
        if lo > mx or (lo == mx and False):
            beyond = True
        elif hi > mx:
            top_gap = True
    return {
        'q_exp': qe, 'lo': lo, 'hi': hi, 'representable': representable,
        'away_count': away_total, 'top_gap': top_gap, 'beyond': beyond,
        'j': j, 'exact_at_k': exact,
    }
