"""
Seeded generator of root programs for C19: nested loops (over lists and static
ranges), while loops, conditionals, rounding blocks under float / fixed / REAL
contexts, calls to inlinable helpers -- every statement made unique by its own
constant.  The source is a pure function of the seed; it is written under
/verif/.cache/gen19/ (the FPy front end reads source from a file) and imported.
"""

from __future__ import annotations

import importlib.util
import os
import random
import sys

from sim import core

def gen_dir() -> str:
    """Scratch directory for generated sources: one per invocation (set by the check's main and
    removed when it exits; a generated program is a pure function of its seed, so nothing is lost)."""
    return os.environ.get('VERIF_GEN19_DIR') or os.path.join(core.VERIF, '.cache', 'gen19')

CTXS = ['fp.FP16', 'fp.FP32', 'fp.REAL', 'fp.MPFixedContext(-8)', 'fp.FixedContext(True, -8, 32)',
        'fp.MPFixedContext(-4, enable_nan=True, enable_inf=True)', 'fp.FP64']


class _Gen:
    def __init__(self, r: random.Random):
        self.r = r
        self.k = 100          # unique constants
        self.v = 0            # unique names
        self.count = 0

    def const(self) -> int:
        self.k += 1
        return self.k

    def name(self, p: str) -> str:
        self.v += 1
        return f'{p}{self.v}'

    def expr(self, avail: list[str]) -> str:
        r = self.r
        a = r.choice(avail)
        b = r.choice(avail)
        form = r.randrange(5)
        if form == 0:
            return f'{a} + {self.const()}'
        if form == 1:
            return f'{a} * {b} + {self.const()}'
        if form == 2:
            return f'leaf({a}) + {self.const()}'
        if form == 3:
            return f'mid({a}) * {self.const()}'
        return f'({a} + {b}) * {self.const()}'

    def block(self, avail: list[str], depth: int, ind: str, budget: list[int]) -> list[str]:
        r = self.r
        out: list[str] = []
        n = r.randint(1, 3 if depth else 5)
        avail = list(avail)
        for _ in range(n):
            if budget[0] <= 0:
                break
            budget[0] -= 1
            kind = r.choice(['assign', 'assign', 'for', 'while', 'if', 'round', 'round', 'acc']) if depth < 3 else \
                r.choice(['assign', 'acc', 'round'])
            if kind == 'assign':
                v = self.name('v')
                out.append(f'{ind}{v} = {self.expr(avail)}')
                avail.append(v)
            elif kind == 'acc':
                out.append(f'{ind}acc = acc + {self.expr(avail)}')
            elif kind == 'for':
                e = self.name('e')
                it = r.choice(['xs', 'ys', f'range({r.randint(2, 5)})', f'[leaf({r.choice(avail)}), {r.choice(avail)}]'])
                out.append(f'{ind}for {e} in {it}:')
                out.append(f'{ind}    acc = acc + {e} * {self.const()}')
                out += self.block(avail + [e], depth + 1, ind + '    ', budget)
            elif kind == 'while':
                w = self.name('w')
                out.append(f'{ind}{w} = {self.const()}.0')
                out.append(f'{ind}while {w} < n:')
                out.append(f'{ind}    {w} = {w} + {self.const()}')
                if r.random() < 0.6:
                    out += self.block(avail + [w], depth + 1, ind + '    ', budget)
                avail.append(w)
            elif kind == 'if':
                cond = r.choice(avail)
                if r.random() < 0.35:
                    cond = f'{r.choice(["leaf", "mid"])}({cond})'      # a call in the header of a compound statement
                out.append(f'{ind}if {cond} > {self.const()}:')
                out += self.block(avail, depth + 1, ind + '    ', budget) or [f'{ind}    acc = acc + {self.const()}']
                if r.random() < 0.6:
                    out.append(f'{ind}else:')
                    out += self.block(avail, depth + 1, ind + '    ', budget) or [f'{ind}    acc = acc - {self.const()}']
            elif kind == 'round':
                q = self.name('q')
                src = r.choice(avail)
                out.append(f'{ind}with {r.choice(CTXS)}:')
                out.append(f'{ind}    {q} = fp.round({src})')
                if r.random() < 0.25:
                    q2 = self.name('q')
                    out.append(f'{ind}    {q2} = fp.round({r.choice(avail)})')
                    out.append(f'{ind}acc = acc + {q2} * {self.const()}')
                out.append(f'{ind}acc = acc + {q} * {self.const()}')
        return out


def source(seed: int) -> str:
    r = random.Random(seed)
    g = _Gen(r)
    budget = [r.randint(6, 16)]
    body = ['    acc = x + 100']
    body += g.block(['x', 'y', 'acc'], 0, '    ', budget)
    body.append(f'    return acc + {g.const()}')
    return (
        'import fpy2 as fp\n'
        'from workloads.c19_roots import leaf, mid\n\n\n'
        '@fp.fpy(ctx=fp.REAL)\n'
        'def gen(xs: list[fp.Real], ys: list[fp.Real], x: fp.Real, y: fp.Real, n: fp.Real) -> fp.Real:\n'
        + '\n'.join(body) + '\n'
    )


_LOADED: dict = {}


def load(seed: int):
    """The generated function for `seed`, or None when the front end rejects the program."""
    if seed in _LOADED:
        return _LOADED[seed]
    d = gen_dir()
    os.makedirs(d, exist_ok=True)
    name = f'c19gen_{seed:016x}'
    path = os.path.join(d, name + '.py')
    src = source(seed)
    try:
        if not os.path.exists(path) or open(path).read() != src:
            tmp = f'{path}.{os.getpid()}.tmp'
            with open(tmp, 'w') as f:
                f.write(src)
            os.replace(tmp, path)
        spec = importlib.util.spec_from_file_location(name, path)
        mod = importlib.util.module_from_spec(spec)
        sys.modules[name] = mod
        spec.loader.exec_module(mod)
        fn = mod.gen
    except Exception as e:       # rejected by the parser / checkers: not a program
        fn = None
        _LOADED[('why', seed)] = f'{type(e).__name__}: {e}'
    _LOADED[seed] = fn
    if len(_LOADED) > 400:
        for k in list(_LOADED)[:200]:
            _LOADED.pop(k, None)
    return fn
