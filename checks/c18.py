"""
C18 — evaluation is pure, isolated from the caller and reentrant.

One simulated run = a fresh fork of a pristine template process in which 1-4
real caller threads, driven by the baton scheduler in `sim.threads`, execute
seeded operation lists (calls, derivations, interpreter swaps, redefinitions,
engine registration, gc) with cancellation faults.  The oracle is relational:
the same call, on the same tree, performed once in a fresh process.
"""

from __future__ import annotations

import gc
import json
import os
import random
import sys
import time
from fractions import Fraction

from sim import core
from sim.threads import Scheduler, SimCancel, StepLimit, pack_schedule
from sim import values as V
from sim.engine_fault import make_exact_engine

PROP = 'C18'
WL_DIR = os.path.join(core.VERIF, 'workloads')
WL_FILES = {'main': 'c18_main.py', 'alt': 'c18_alt.py', 'cap': 'c18_captured.py', 'fac': 'c18_factory.py', 'lib': 'c18_lib.py'}
CTX_NAMES = [None, 'FP64', 'FP32', 'FP16', 'RTZ16', 'RTP16', 'RTN32', 'RAZ8', 'MP5', 'FX4', 'REAL', 'FXF', 'MP40', 'FXM', 'MP12', 'MP25']
FLOAT_CTXS = ['FP64', 'FP32', 'FP16', 'RTZ16', 'RTP16', 'RTN32', 'RAZ8', 'MP5', 'MP40', 'MP12', 'MP25']
FIXED_CTXS = ['FX4', 'FXM', 'FXF']
OTHER_CTXS = [None, 'REAL', 'FP64']
# contexts ordered by how fine their grid is near 1
RESOLUTION = ['RAZ8', 'MP5', 'FX4', 'FP16', 'RTZ16', 'RTP16', 'MP12', 'FXM', 'FP32', 'RTN32', 'MP25', 'FXF', 'MP40', 'FP64', None, 'REAL']
HOT = frozenset(['eval', 'compile', '_compile', 'to_value', 'from_value', '_mpfr_call_with_prec', '__iter__', 'mpfr_call',
                 '_visit_context', '_normalize', 'register', '_func_ctx', '_call_fpy', '_eval_call', 'round',
                 '_default_function_call', 'make_namespace', '__call__'])
CRITICAL = ['_mpfr_call_with_prec', '_mpfr_call_with_prec', '_mpfr_call_with_prec', 'mpfr_call', 'compile', 'eval', '_round_odd', 'float_to_mpfr', 'compile', 'eval',
            '_compile', 'to_value', 'from_value', '_normalize', '_func_ctx', '_call_fpy', '_eval_call', 'make_namespace',
            '_round_prepare', '_round_at', '_default_function_call', '_visit_function']
OPCODE_FILES = ('interpret/byte.py', 'number/gmputils.py', 'number/engine/engine.py', 'fpy2/ops.py',
                'interpret/value.py', 'interpret/interpreter.py')

_NS: dict[str, dict] = {}
DEFAULT_RECURSION_LIMIT = 1000


# --------------------------------------------------------------------------
# workloads

_PREIMPORTED = False


def preimport():
    """Imports every module of the repository package in the template, so that no simulated
    thread ever executes a first-time import (import locks are real locks the baton does not see)."""
    global _PREIMPORTED
    if _PREIMPORTED:
        return
    _PREIMPORTED = True
    import importlib
    import pkgutil
    import fpy2
    for m in pkgutil.walk_packages(fpy2.__path__, 'fpy2.'):
        try:
            importlib.import_module(m.name)
        except Exception:
            pass


def load_ns(name: str) -> dict:
    """Loads (once per process) a workload namespace; evaluates nothing."""
    preimport()
    if name not in _NS:
        # a real module (it stays in sys.modules), so that functions defined later by its
        # helpers can still find their source
        import importlib
        mod = importlib.import_module('workloads.' + WL_FILES[name][:-3])
        _NS[name] = mod.__dict__
    return _NS[name]


def fresh_ns(name: str, tag: str = '') -> dict:
    # the workload module executed once more under another name (new Function objects with old names);
    # it stays in sys.modules so that functions its helpers define later can still find their source
    import importlib.util
    path = os.path.join(WL_DIR, WL_FILES[name])
    modname = f'c18wl_{name}_re{tag}'
    spec = importlib.util.spec_from_file_location(modname, path)
    mod = importlib.util.module_from_spec(spec)
    sys.modules[modname] = mod
    spec.loader.exec_module(mod)
    return mod.__dict__


def ctx_of(ns: dict, cname):
    import fpy2 as fp
    if cname is None:
        return None
    if cname in ('FP64', 'FP32', 'FP16', 'REAL', 'INTEGER'):
        return getattr(fp, cname)
    base = load_ns('main')
    return base[cname]


# --------------------------------------------------------------------------
# generation (pure functions of the run's PRNG; need only workload metadata)

NUMS = [
    ['i', 1], ['i', 2], ['i', 3], ['i', -1], ['i', 5], ['i', 10], ['i', 0],
    ['f', (0.5).hex()], ['f', (1.5).hex()], ['f', (0.1).hex()], ['f', (-2.75).hex()], ['f', (1e-3).hex()],
    ['f', (3.0).hex()], ['f', (100.0).hex()], ['f', (0.0).hex()],
    ['q', '1/3'], ['q', '7/2'], ['q', '-5/8'], ['q', '22/7'],
    ['F', '3/4'], ['F', '-9/2'], ['F', '1'],
    ['Fr', '1/3', 'FP16'], ['Fr', '2/3', 'FP32'], ['Fr', '10/3', 'FP64'], ['Fr', '70000', 'FP16'],
    ['R', '5/4'], ['R', '-3/8'], ['R', '6'],
]
BIG = [['F', str(10 ** 10)], ['F', str(2 ** 70)], ['f', (1e300).hex()], ['Fr', '1e30', 'FP64'], ['F', '-' + str(10 ** 12)],
       ['f', (65520.0).hex()], ['F', '3'], ['i', 70000], ['q', '1/3']]
SPECIALS = [['F', 'nan'], ['F', 'inf'], ['F', '-inf'], ['F', '-0'], ['f', float('nan').hex()], ['f', float('inf').hex()]]


def _numval(spec) -> Fraction | None:
    k = spec[0]
    if k == 'i':
        return Fraction(spec[1])
    if k == 'f':
        f = float.fromhex(spec[1])
        return Fraction(f) if f == f and abs(f) != float('inf') else None
    if k in ('q', 'F', 'R'):
        try:
            return Fraction(spec[1])
        except ValueError:
            return None
    if k == 'Fr':
        return Fraction(spec[1])
    return None


def gen_num(r: random.Random, kind: str):
    if kind == 'any_num':
        if r.random() < 0.35:
            return r.choice(SPECIALS)
        return r.choice(NUMS)
    if kind == 'cnt':
        n = r.randint(0, 4)
        return r.choice([['i', n], ['f', float(n).hex()], ['F', str(n)]])
    if kind == 'flagged':
        # a Float that carries flags: the inexact result of rounding a non-dyadic rational
        return ['Fr', r.choice(['1/3', '1/10', '22/7', '-2/3', '5/7', '-1/9']), r.choice(['FP16', 'FP32'])]
    if kind == 'bit':
        n = r.choice([0, 1])
        return r.choice([['i', n], ['f', float(n).hex()]])
    if kind == 'idx':
        n = r.choice([0, 0, 1, 1, 2, 3, 5, -1])
        return r.choice([['i', n], ['f', float(n).hex()]])
    for _ in range(50):
        s = r.choice(NUMS)
        v = _numval(s)
        if v is None:
            continue
        if s[0] == 'Fr' and s[1] == '70000':
            continue   # rounds to inf under FP16
        if kind == 'nz' and v == 0:
            continue
        if kind == 'pos' and v <= 0:
            continue
        if kind == 'num_small' and abs(v) > 4:
            continue
        return s
    return ['i', 1]


_list_id = 0


def gen_list(r: random.Random, lo: int, hi: int, ids: list, allow_special=False):
    n = r.randint(lo, hi)
    lid = len(ids)
    ids.append(lid)
    return ['L', lid, [gen_num(r, 'any_num' if allow_special and r.random() < 0.2 else 'num') for _ in range(n)]]


def gen_arg(r: random.Random, kind: str, ids: list):
    if kind in ('num', 'nz', 'pos', 'num_small', 'cnt', 'idx', 'bit', 'any_num', 'flagged'):
        return gen_num(r, kind)
    if kind == 'big':
        return r.choice(BIG)
    if kind == 'biglist':
        lid = len(ids)
        ids.append(lid)
        return ['L', lid, [r.choice(BIG + NUMS[:6]) for _ in range(r.randint(2, 4))]]
    if kind == 'list1+':
        return gen_list(r, 1, 4, ids)
    if kind == 'list2+':
        return gen_list(r, 2, 4, ids)
    if kind == 'list3+':
        return gen_list(r, 3, 5, ids)
    if kind == 'list3':
        return gen_list(r, 3, 3, ids)
    if kind == 'list2d':
        rows = []
        outer = len(ids)
        ids.append(outer)
        nrows = r.randint(2, 3)
        for i in range(nrows):
            if rows and r.random() < 0.3:
                prev = r.choice([x for x in rows if x[0] == 'L'])
                rows.append(['A', prev[1]])
            else:
                rows.append(gen_list(r, 1, 2, ids))
        return ['L', outer, rows]
    if kind == 'pair_num_list':
        return ['T', [gen_num(r, 'num'), gen_list(r, 1, 3, ids)]]
    if kind == 'deep':
        a = gen_list(r, 1, 2, ids)
        if r.random() < 0.3:
            c = ['A', a[1]]
        else:
            c = gen_list(r, 1, 3, ids)
        return ['T', [a, ['T', [gen_num(r, 'num'), c]]]]
    raise ValueError(kind)


def gen_args(r: random.Random, sig: list[str]):
    ids: list = []
    args = [gen_arg(r, k, ids) for k in sig]
    # occasionally pass the very same list object for two list parameters
    if len(sig) == 2 and sig[0] == sig[1] == 'list3' and r.random() < 0.25:
        args[1] = ['A', args[0][1]]
    return args


CATALOGUE = 10
_CATALOGUE: dict = {}
# argument structure is a dimension of the property: besides mixed representations, whole
# argument tuples whose numbers all share one representation (all Fraction, all Float, all
# rounded Float carrying flags and a context, all float, all int, all RealFloat)
_MODES = ['mixed', 'mixed', 'q', 'F', 'Fr', 'f', 'i', 'R', 'mixed', 'Fr']      # (a flagged, rounded Float in both halves of every catalogue)


def _coerce_num(spec, kind: str):
    v = _numval(spec)
    if v is None or kind == 'mixed':
        return spec
    d = v.denominator
    dyadic = d & (d - 1) == 0
    if kind == 'i':
        n = v.numerator // v.denominator
        return ['i', n if n != 0 or v == 0 else 1]
    if kind == 'f':
        return ['f', float(v).hex()]
    if kind == 'q':
        return ['q', str(v)]
    if kind == 'F':
        return ['F', str(v if dyadic else Fraction(float(v)))]
    if kind == 'R':
        return ['R', str(v if dyadic else Fraction(float(v)))]
    if kind == 'Fr':
        return ['Fr', str(v), 'FP32']
    return spec


def _coerce(spec, kind: str):
    if spec[0] == 'L':
        return ['L', spec[1], [_coerce(x, kind) for x in spec[2]]]
    if spec[0] == 'T':
        return ['T', [_coerce(x, kind) for x in spec[1]]]
    if spec[0] == 'A':
        return spec
    return _coerce_num(spec, kind)


def catalogue(ns: str, name: str, sig: list[str]) -> list:
    """
    A fixed catalogue of argument tuples per workload function (a pure function of the function's
    name): runs draw from it, so the same call recurs across runs and its fresh-process reference
    is computed once.
    """
    k = (ns, name)
    if k not in _CATALOGUE:
        rr = random.Random(f'catalogue:{ns}:{name}')
        _CATALOGUE[k] = [[_coerce(a, _MODES[e % len(_MODES)]) if s_ not in ('cnt', 'idx', 'bit', 'big', 'biglist', 'flagged') else a
                          for a, s_ in zip(gen_args(rr, sig), sig)] for e in range(CATALOGUE)]
    return _CATALOGUE[k]


def gen_run(seed: int, tier: str, sub: str) -> dict:
    """
    The whole description of one simulated run: swarm configuration, per-thread
    op lists, faults.  `sub` selects the sub-batch: 'plain' (no faults),
    'faults', 'captured' (the F2 workload, single namespace).
    """
    r = random.Random(seed)
    for n in WL_FILES:
        load_ns(n)       # the template holds every namespace before any run is forked
    meta = {n: load_ns(n) for n in (('cap',) if sub == 'captured' else ('main', 'alt', 'lib'))}
    nthreads = r.choice([1, 2, 2, 3, 3, 4])
    cfg = {
        'sub': sub,
        'nthreads': nthreads,
        'mean_quantum': r.choice([3, 10, 40, 150, 600, 2500]),
        'opcode': r.random() < 0.3,
        'hot_bias': r.choice([0.0, 0.2, 0.6]),
        'starve': r.choice([0.0, 0.0, 0.3, 0.7]),
        # whether calls with the same argument description receive the very same Python objects
        # (a caller passing one list to many calls, also from several threads: nobody may change it)
        'share_args': r.choice(['none', 'none', 'thread', 'all']),
        'nops': r.randint(3, 10 if tier == 'quick' else 14),
        'faults': sub == 'faults',
        # whether the callers overwrite the lists of every result they receive (theirs to do)
        'scribble': r.random() < 0.6,
    }
    fault_kinds = []
    if cfg['faults']:
        fault_kinds = [k for k in ('cancel', 'engine', 'swap_default', 'redefine', 'gc', 'new_rt', 'ambient')
                       if r.random() < 0.6] or ['cancel']
    cfg['fault_kinds'] = fault_kinds
    if 'cancel' in fault_kinds:
        # CPython 3.12.1 crashes (SIGSEGV) when a trace function raises in a thread that also has
        # opcode-granular tracing on; cancellation runs are line-granular only
        cfg['opcode'] = False
    # swarm: a subset of the workload
    pool = []
    for ns, m in meta.items():
        names = sorted(m['SIG'])
        for n in r.sample(names, max(1, int(len(names) * r.choice([0.2, 0.5, 1.0])))):
            pool.append((ns, n))
    # a small per-run pool of (function, arguments, context) triples: the same call recurring in
    # different threads, before and after other evaluations, is what the property is about (and
    # it keeps the number of fresh-process references per run small)
    call_pool = []
    # run shapes are stratified over the run index (the low bits of the seed), and the functions in
    # focus rotate through the workload's special cases, so that a batch of a hundred runs has
    # covered every shape a dozen times and every special function a few times
    idx = seed & 0xFFFF
    slot = idx % 10
    rot = idx // 10
    m = meta.get('main')
    shape = 'free'
    if sub != 'captured':
        shape = {0: 'sweep', 1: 'sweep', 2: 'stampede', 3: 'failure', 4: 'focus', 5: 'boundary', 6: 'failure', 7: 'derive',
                 9: 'stampede'}.get(slot, 'free')
    if shape == 'free' and rot % 2 == 0 and sub != 'captured':
        shape = 'chain'
    cfg['shape'] = shape
    cfg['sweep'] = shape == 'sweep'
    cfg['stampede'] = shape == 'stampede'

    def rotate(names: list, k: int, n: int) -> list:
        return [names[(k + 7 * q) % len(names)] for q in range(n)] if names else []

    if shape == 'stampede':
        # cold stampede: every thread's first operations are calls of the same one or two functions
        # through the shared default interpreter, finely interleaved -- the first-use paths (compile,
        # cache fill, lazily built tables) are where two callers meet
        cfg['nthreads'] = nthreads = max(2, nthreads)
        cfg['mean_quantum'] = r.choice([1, 2, 3, 6])
        cfg['starve'] = r.choice([0.3, 0.7, 1.0])
        sns = 'lib' if r.random() < 0.2 else 'main'
        amb = [n for n in meta[sns].get('AMBIENT', []) if n in meta[sns]['SIG']]
        srot = rot + (1 if slot == 9 else 0)       # the two stampede slots of a decade differ
        names = rotate(amb, srot, r.randint(1, 2))
        if sns == 'main' and srot % 2 == 0:
            names = rotate(m['PINNED'], srot // 2, 1) + names[:1]
        if sns == 'main' and srot % 3 == 1 and 'deep_chain' in m['SIG']:
            # every third stampede has the deepest program in it: a compilation that is in flight for
            # long (and lives on process-wide settings such as the recursion limit) while others come and go
            names = names[:1] + ['deep_chain']
        if sns == 'main' and srot % 3 == 2 and m.get('LOOPS'):
            # loop stampede: every thread's first calls are loops of different lengths over indices the
            # interpreter makes (whatever it keeps of them is first filled by several callers at once)
            names = rotate([n for n in m['LOOPS'] if n in m['SIG']], srot // 3, 3)
        for name in names:
            args = catalogue(sns, name, meta[sns]['SIG'][name])[r.randrange(4)]
            for cname in r.sample(CTX_NAMES, 2):
                call_pool.append((sns, name, args, cname))
    elif shape == 'sweep' and slot == 0:
        # context ladder: every function that computes under the caller's context, the same arguments,
        # under a ladder of contexts walked from coarse to fine (or fine to coarse, or shuffled):
        # whatever a call leaves behind for "the same value under a similar context" is met by the next rung
        cfg['nthreads'] = nthreads = r.choice([1, 1, 2])
        cfg['mean_quantum'] = r.choice([40, 150, 600, 2500])
        cfg['starve'] = 0.0
        cfg['opcode'] = False
        ctxs = r.sample(FLOAT_CTXS, 3) + r.sample(FIXED_CTXS, 2)
        order = rot % 4
        if order == 3:
            r.shuffle(ctxs)
        else:
            ctxs.sort(key=RESOLUTION.index, reverse=(order == 2))
        cfg['ladder'] = ctxs
        for name in m['LADDER']:
            args = catalogue('main', name, m['SIG'][name])[rot % 2]
            for cname in ctxs:
                call_pool.append(('main', name, args, cname))
    elif shape == 'sweep':
        # context sweep: one or two functions that compute under the caller's context, the same
        # arguments, several contexts -- "the same function under another context" as history
        cfg['starve'] = r.choice([0.0, 0.0, 0.3, 0.7])
        sns = 'lib' if rot % 4 == 3 else 'main'
        amb = [n for n in meta[sns].get('BARE' if sns == 'main' else 'AMBIENT', []) if n in meta[sns]['SIG']]
        names = rotate(amb, rot, r.randint(1, 2))
        if sns == 'main' and rot % 3 == 0:
            names = rotate(m['PINNED'], rot // 3, 1) + names[:1]
        for name in names:
            args = catalogue(sns, name, meta[sns]['SIG'][name])[r.randrange(4)]
            # always float formats of different widths next to a fixed-point grid, plus whatever else
            ctxs = r.sample(FLOAT_CTXS, 2) + r.sample(FIXED_CTXS, 1) + r.sample(OTHER_CTXS, r.randint(0, 2))
            r.shuffle(ctxs)
            for cname in ctxs:
                call_pool.append((sns, name, args, cname))
    elif shape == 'chain':
        # a long chain of *different* calls, drawn from every namespace: each one is preceded by many
        # others (a broad net for state kept from one function, context or argument kind to another); the
        # calls come from a small fixed palette (two argument tuples, four contexts per function) so that
        # their fresh-process references are shared from run to run
        cfg['nthreads'] = nthreads = r.choice([1, 1, 2])
        cfg['mean_quantum'] = r.choice([40, 150, 600, 2500])
        cfg['opcode'] = False
        palette = [None, 'FP32', 'RTZ16', 'FX4']
        everything = [(ns, n) for ns in sorted(meta) for n in sorted(meta[ns]['SIG'])]
        picked = r.sample(everything, min(30, len(everything)))
        threads = []
        for t in range(nthreads):
            ops = []
            order = picked if t == 0 else picked[::-1]
            for ns, name in order:
                cname = palette[(sum(map(ord, name)) + rot) % len(palette)]
                ops.append({'op': 'call', 'fn': [ns, name], 'key': {'root': [ns, name], 'chain': []},
                            'args': catalogue(ns, name, meta[ns]['SIG'][name])[rot % 2], 'ctx': cname,
                            'rt': 'default' if len(ops) % 5 else 'own', 'cancel': None})
            threads.append(ops)
        return {'seed': seed, 'cfg': cfg, 'threads': threads, 'schedule': None, 'sched_seed': r.randrange(1 << 62)}
    elif shape == 'derive':
        # transformed copies as history: the source is evaluated, a copy is derived from it (strategies
        # and user rewrite rules), the copy and the source are evaluated again through the same and
        # through a fresh interpreter -- in every thread, same calls, so they also meet concurrently
        cfg['nthreads'] = nthreads = r.choice([1, 2, 2, 3])
        if rot % 2:
            # every other derive run is a stampede too: the derived copies are compiled for the first
            # time by several threads at once, finely interleaved
            cfg['nthreads'] = nthreads = max(2, nthreads)
            cfg['mean_quantum'] = r.choice([1, 2, 3, 6])
            cfg['starve'] = r.choice([0.3, 0.7, 1.0])
        dnames = sorted(n for n in m['DERIVABLE'] if n in m['SIG'])
        # (the two sub-batches start at different places, so that a short batch still covers every function)
        doff = (8 if sub == 'faults' else 0) + 3 * rot
        names = [dnames[(doff + q) % len(dnames)] for q in range(3)]
        if rot % 2 and 'q_a16' in dnames:
            # the twins that differ only in the context their derived copies keep
            names = [n for n in names if n not in ('q_a16', 'q_b8')] + ['q_a16', 'q_b8']
        if rot % 2 == 0 and 'zs_pos' in dnames:
            # the twins that differ only in the sign of a zero, in either order
            tw = list(m['TWINS'][1 + (rot // 2) % (len(m['TWINS']) - 1)])
            if (rot // 4) % 2:
                tw.reverse()
            names = [n for n in names if n not in tw][:2] + tw
        picks = {name: (catalogue('main', name, m['SIG'][name])[rot % 4], r.choice(CTX_NAMES)) for name in names}
        threads = []
        for t in range(nthreads):
            ops = []
            order = names if t % 2 == 0 else names[::-1]
            if rot % 2 and 'q_a16' in names:
                # the twins first, each thread starting with the other one: their derived copies are
                # compiled for the first time at the same moment
                tw = ['q_a16', 'q_b8'] if t % 2 == 0 else ['q_b8', 'q_a16']
                order = tw + [n for n in order if n not in tw]
                if True:
                    # twin storm: each thread derives a fresh copy of "its" twin and evaluates it at once, four
                    # times over, each thread starting with the other twin -- every round is a first compilation
                    # of two programs alike but for one embedded value, by two threads in step
                    for rnd in range(4):
                        for name in (tw if rnd % 2 == 0 else tw[::-1]):
                            cargs, cctx = picks[name]
                            ref = ['d', t, len(ops)]
                            key = {'root': ['main', name], 'chain': [['simplify', {}]]}
                            ops.append({'op': 'derive', 'src': ['main', name], 'strategy': 'simplify', 'kw': {}, 'ref': ref, 'key': key})
                            ops.append({'op': 'call', 'fn': ref, 'key': key, 'args': cargs, 'ctx': cctx, 'rt': 'default', 'cancel': None})
            for name in order:
                cargs, cctx = picks[name]
                root = {'root': ['main', name], 'chain': []}

                def call(fn, key, rt, **kw):
                    return dict({'op': 'call', 'fn': fn, 'key': key, 'args': cargs, 'ctx': cctx, 'rt': rt, 'cancel': None}, **kw)
                ops.append(call(['main', name], root, 'default'))
                ders = m['DERIVABLE'][name]
                for q in range(len(ders)):
                    strat, kw = ders[(q + (0 if name in ('q_a16', 'q_b8') else t)) % len(ders)]
                    ref = ['d', t, len(ops)]
                    key = {'root': ['main', name], 'chain': [[strat, kw]]}
                    ops.append({'op': 'derive', 'src': ['main', name], 'strategy': strat, 'kw': kw, 'ref': ref, 'key': key})
                    ops.append(call(ref, key, 'default'))
                    ops.append(call(['main', name], root, 'fresh' if q % 2 else 'default', h2=True))
                    ops.append(call(ref, key, 'fresh' if q % 2 == 0 else 'own'))
            threads.append(ops)
        return {'seed': seed, 'cfg': cfg, 'threads': threads, 'schedule': None, 'sched_seed': r.randrange(1 << 62)}
    elif shape == 'boundary':
        # boundary sweep: four of the functions that take or return containers, every other argument tuple of
        # their catalogues (the other half the next time round) (all representations, aliased sub-lists), the callers overwriting what they get
        # back -- what crosses the Python boundary in either direction, systematically rather than sampled
        cfg['nthreads'] = nthreads = r.choice([1, 1, 2])
        cfg['mean_quantum'] = r.choice([150, 600, 2500])
        cfg['starve'] = 0.0
        cfg['opcode'] = False
        cfg['scribble'] = True
        off = (14 if sub == 'faults' else 0) + 4 * rot
        parity = (rot // 8) % 2          # the other half of every catalogue once all functions have had a turn
        names = [m['BOUNDARY'][(off + q) % len(m['BOUNDARY'])] for q in range(4)]
        threads = []
        for t in range(nthreads):
            ops = []
            for name in names:
                # (one context per function, so that the same calls recur from run to run and the
                # fresh-process references are shared: forks are the scarce resource here)
                cname = CTX_NAMES[sum(map(ord, name)) % len(CTX_NAMES)]
                cat = catalogue('main', name, m['SIG'][name])
                # every other argument tuple of the catalogue, the other half in the next round
                for e in range(parity, CATALOGUE, 2):
                    ops.append({'op': 'call', 'fn': ['main', name], 'key': {'root': ['main', name], 'chain': []},
                                'args': cat[(e + 2 * t) % CATALOGUE], 'ctx': cname, 'rt': 'default' if e % 4 else 'own', 'cancel': None})
            threads.append(ops)
        return {'seed': seed, 'cfg': cfg, 'threads': threads, 'schedule': None, 'sched_seed': r.randrange(1 << 62)}
    elif shape == 'failure':
        # failure runs: programs that fail half-way (below a call, inside nested `with` blocks, in a
        # primitive) mixed with functions computing under the caller's or the default context
        cfg['failure_mix'] = True
        below = m['FAIL_BELOW'][rot % len(m['FAIL_BELOW'])]
        other = rotate(m['FAILING'], rot, 1)[0]
        for name, n_ in ((below, 3), (other, 1)):
            cat = catalogue('main', name, m['SIG'][name])
            for q in range(n_):
                call_pool.append(('main', name, cat[(rot + 3 * q) % CATALOGUE], r.choice(CTX_NAMES)))
        for name in rotate(m['BARE'], rot, 2):
            args = catalogue('main', name, m['SIG'][name])[r.randrange(4)]
            call_pool.append(('main', name, args, None))
            call_pool.append(('main', name, args, None))
            call_pool.append(('main', name, args, r.choice(CTX_NAMES)))
    elif shape == 'focus':
        # two of the workload's special cases (aliasing arguments, pinned contexts, overflowing
        # roundings, literals, closures, primitives, failing programs ...), several argument tuples each
        for name in rotate(m['SPECIAL'], rot, 2):
            cat = catalogue('main', name, m['SIG'][name])
            for q in range(2):
                call_pool.append(('main', name, cat[(rot + 3 * q) % CATALOGUE], r.choice(CTX_NAMES)))
        ns, name = r.choice(pool)
        call_pool.append((ns, name, catalogue(ns, name, meta[ns]['SIG'][name])[r.randrange(CATALOGUE)], None))
    else:
        for _ in range(r.randint(2, 6)):
            ns, name = r.choice(pool)
            call_pool.append((ns, name, catalogue(ns, name, meta[ns]['SIG'][name])[r.randrange(CATALOGUE)], r.choice(CTX_NAMES)))
    threads = []
    if cfg.get('ladder'):
        # every thread walks the same ladder of contexts, calling every function at each rung
        for t in range(nthreads):
            ops = []
            for cname in cfg['ladder']:
                rung = [c for c in call_pool if c[3] == cname]
                rung = rung[t % len(rung):] + rung[:t % len(rung)]
                for ns, name, cargs, cctx in rung:
                    ops.append({'op': 'call', 'fn': [ns, name], 'key': {'root': [ns, name], 'chain': []},
                                'args': cargs, 'ctx': cctx, 'rt': 'default' if (t + len(ops)) % 3 else 'own', 'cancel': None})
            if 'ambient' in fault_kinds:
                # the caller's own MPFR settings change somewhere along the ladder
                ops.insert(r.randrange(len(ops) // 2 + 1), {'op': 'ambient', 'set': r.choice(AMBIENTS)})
            threads.append(ops)
        return {'seed': seed, 'cfg': cfg, 'threads': threads, 'schedule': None, 'sched_seed': r.randrange(1 << 62)}
    for t in range(nthreads):
        ops = []
        derived = []      # (ref, key) usable by this thread
        ns_map = {ns: ns for ns in meta}      # current namespace alias of this thread
        for j in range(cfg['nops']):
            x = r.random()
            if cfg.get('stampede') and j < 3:
                x = 0.3          # a plain call
            elif fault_kinds and x < 0.25:
                k = r.choice(fault_kinds)
                if k == 'engine':
                    ops.append({'op': 'engine', 'seed': r.randrange(1 << 30), 'rate': r.choice([0.2, 0.5, 0.9])})
                    continue
                if k == 'swap_default':
                    ops.append({'op': 'swap_default'})
                    continue
                if k == 'new_rt':
                    ops.append({'op': 'new_rt'})
                    continue
                if k == 'gc':
                    ops.append({'op': 'gc'})
                    continue
                if k == 'ambient':
                    ops.append({'op': 'ambient', 'set': r.choice(AMBIENTS)})
                    continue
                if k == 'redefine':
                    base = r.choice(sorted(meta))
                    new = f'{base}#{t}.{j}'
                    ops.append({'op': 'redefine', 'base': base, 'ns': new})
                    ns_map[base] = new
                    continue
            if sub != 'captured' and x > 0.92:
                fac = load_ns('fac')
                kind = r.choice(sorted(fac['FACTORIES']))
                maker, one, pool_vals = fac['FACTORIES'][kind]
                vals = r.sample(pool_vals, r.randint(2, 3))
                ops.append({'op': 'factory', 'maker': maker, 'one': one, 'vals': vals, 'x': r.choice(NUMS[:14]),
                            'ctx': r.choice(CTX_NAMES)})
                continue
            ns, name, cargs, cctx = r.choice(call_pool)
            m = meta[ns]
            ders = m['DERIVABLE'].get(name, [])
            if ders and x > 0.8:
                strat, kw = r.choice(ders)
                ref = ['d', t, j]
                key = {'root': [ns, name], 'chain': [[strat, kw]]}
                ops.append({'op': 'derive', 'src': [ns_map[ns], name], 'strategy': strat, 'kw': kw, 'ref': ref, 'key': key})
                derived.append((ref, key, cargs, cctx))
                # H2: the source, recompiled from its tree as it is now, must be unchanged
                ops.append({'op': 'call', 'fn': [ns_map[ns], name], 'key': {'root': [ns, name], 'chain': []},
                            'args': cargs, 'ctx': cctx, 'rt': 'fresh', 'cancel': None, 'h2': True})
                continue
            if derived and x > 0.55:
                ref, key, dargs, dctx = r.choice(derived)
                ops.append({'op': 'call', 'fn': ref, 'key': key, 'args': dargs,
                            'ctx': dctx, 'rt': r.choice(['default', 'own', 'fresh']), 'cancel': None})
                continue
            cancel = None
            if 'cancel' in fault_kinds and r.random() < 0.4:
                if r.random() < 0.35:
                    cancel = int(2 ** r.uniform(0, 14.5))
                else:
                    # placed where state is being changed: the k-th line inside a small critical function
                    cancel = [r.choice(CRITICAL), r.randint(1, 20)]
            rt = r.choice(['default', 'default', 'own', 'fresh'])
            if cfg.get('stampede') and j < 3:
                rt, cancel = 'default', None
            ops.append({'op': 'call', 'fn': [ns_map[ns], name], 'key': {'root': [ns, name], 'chain': []},
                        'args': cargs, 'ctx': cctx, 'rt': rt, 'cancel': cancel})
            if cancel is not None and r.random() < 0.7:
                # what a caller does after an interruption: the same call again, in the same thread
                ops.append({'op': 'call', 'fn': [ns_map[ns], name], 'key': {'root': [ns, name], 'chain': []},
                            'args': cargs, 'ctx': cctx, 'rt': rt, 'cancel': None, 'retry': True})
        threads.append(ops)
    return {'seed': seed, 'cfg': cfg, 'threads': threads, 'schedule': None, 'sched_seed': r.randrange(1 << 62)}


# --------------------------------------------------------------------------
# executing a run (in a fresh fork of the template)

def _apply_strategy(f, strat: str, kw: dict):
    if strat.startswith('rw_'):
        # a user rewrite rule (an expression rewrite: the statement stays, no statement edit is reported)
        return load_ns('main')['rewrite_rule'](strat).apply(f)
    from fpy2 import strategies as S
    fn = getattr(S, strat)
    if strat == 'split':
        kw = dict(kw)
        factor = kw.pop('factor')
        return fn(f, factor, **kw)
    return fn(f, **kw)


def _outcome_of_call(fn, args, ctx, how: str, own_rt):
    """Performs the call; returns (outcome, result-object-or-None)."""
    import fpy2 as fp
    try:
        if how == 'fresh':
            res = fn.with_rt(fp.BytecodeInterpreter())(*args, ctx=ctx)
        elif how == 'own':
            res = fn.with_rt(own_rt)(*args, ctx=ctx)
        else:
            res = fn(*args, ctx=ctx)
    except (SimCancel, StepLimit):
        raise
    except Exception as e:
        return ['exc', type(e).__name__], None
    return ['ok', V.denote(res)], res


# what the calling thread's own gmpy2 (MPFR) context may look like when it calls an FPy function: the
# application, or the Python body of a primitive, used gmpy2 for its own purposes in this thread
AMBIENTS = [['prec', 2], ['prec', 24], ['prec', 113], ['round', 'RoundUp'], ['round', 'RoundDown'], ['round', 'RoundToZero'],
            ['round', 'RoundAwayZero'], ['ieee', 16], ['ieee', 32], ['ieee', 128], ['traps'], ['range', 10, -10],
            ['range', 1000, -1000], ['default']]


def _set_ambient(spec: list):
    import gmpy2
    kind = spec[0]
    if kind == 'prec':
        ctx = gmpy2.context(precision=spec[1])
    elif kind == 'round':
        ctx = gmpy2.context(round=getattr(gmpy2, spec[1]))
    elif kind == 'ieee':
        ctx = gmpy2.ieee(spec[1])
    elif kind == 'traps':
        ctx = gmpy2.context(trap_inexact=True, trap_underflow=True, trap_overflow=True, trap_divzero=True,
                            trap_invalid=True)
    elif kind == 'range':
        ctx = gmpy2.context(emax=spec[1], emin=spec[2])
    else:
        ctx = gmpy2.context()
    gmpy2.set_context(ctx)


def _publish_probe() -> int:
    """Changes whenever something is published to process-wide evaluation state: an entry in the
    default interpreter's compiled-function cache, a registered engine."""
    from fpy2.interpret.interpreter import _default_interpreter as rt   # noqa: PLC2701 (read-only peek)
    import fpy2.interpret.interpreter as ii
    from fpy2.number.engine.engine import ENGINES
    rt = ii._default_interpreter
    n = len(getattr(rt, 'func_cache', ())) if rt is not None else 0
    return n * 1000 + len(ENGINES._items) + (id(rt) & 0xffff) * 1000000


def execute_run(run: dict) -> dict:
    """Runs in the forked child.  Returns the recorded history and scheduler statistics."""
    import fpy2 as fp
    # the interpreter's default, which is what a deployment has (the harness itself runs with more)
    sys.setrecursionlimit(DEFAULT_RECURSION_LIMIT)
    from fpy2.number.engine import register_engine
    cfg = run['cfg']
    n = cfg['nthreads']
    spaces: dict[str, dict] = {}
    for ns in (('cap',) if cfg['sub'] == 'captured' else ('main', 'alt', 'lib')):
        spaces[ns] = load_ns(ns)
    derived: dict[str, object] = {}
    busy: dict = {}
    history: list[dict] = []
    engines = []
    scribble_mark = fp.Float.from_int(-77) if hasattr(fp.Float, 'from_int') else -77.0
    rng = random.Random(run['sched_seed']) if run.get('schedule') is None else None
    sched = Scheduler(
        n, rng,
        trace_prefixes=(os.path.join(core.REPO, 'fpy2') + os.sep, WL_DIR + os.sep),
        mean_quantum=cfg['mean_quantum'],
        opcode_files=OPCODE_FILES if cfg['opcode'] else (),
        hot_names=HOT, hot_bias=cfg['hot_bias'], starve=cfg.get('starve', 0.0),
        publish_probe=_publish_probe if cfg.get('starve', 0.0) else None,
        schedule=run.get('schedule'),
        max_steps=cfg.get('max_steps', 3_000_000),
    )

    if run.get('debug_items'):
        sched.items = []

    def resolve(ref):
        if ref[0] in ('d', 'fl'):
            return derived.get(json.dumps(ref))
        ns, name = ref
        sp = spaces.get(ns)
        return None if sp is None else sp.get(name)

    # arguments are built before any simulated thread starts: constructing them is the caller's
    # business (it runs library code: rounding a Fraction), not part of the evaluation under test
    prebuilt = {}
    shared_objs: dict = {}
    share = cfg.get('share_args', 'none')
    for t_, ops_ in enumerate(run['threads']):
        for j_, op_ in enumerate(ops_):
            if op_['op'] == 'call':
                sk = None if share == 'none' else (json.dumps(op_['args']) if share == 'all' else (t_, json.dumps(op_['args'])))
                if sk is not None and sk in shared_objs:
                    prebuilt[(t_, j_)] = shared_objs[sk]
                    continue
                memo_: dict = {}
                prebuilt[(t_, j_)] = [V.build_arg(a, memo_) for a in op_['args']]
                if sk is not None:
                    shared_objs[sk] = prebuilt[(t_, j_)]

    def body(sc: Scheduler, i: int):
        own_rt = fp.BytecodeInterpreter()
        for j, op in enumerate(run['threads'][i]):
            rec = {'t': i, 'j': j, 'op': op['op']}
            kind = op['op']
            sc.begin_op(i, op.get('cancel') if kind == 'call' else None)
            try:
                if kind == 'call':
                    fn = resolve(op['fn'])
                    if fn is None:
                        rec['outcome'] = ['no-fn']
                    else:
                        args = prebuilt[(i, j)]
                        before = [V.snap_deep(a) for a in args]
                        arg_lists = set()
                        for a in args:
                            V.list_ids(a, arg_lists)
                        ctx = ctx_of(spaces, op['ctx'])
                        try:
                            outcome, res = _outcome_of_call(fn, args, ctx, op['rt'], own_rt)
                        except SimCancel:
                            sc.rearm(i)
                            outcome, res = ['cancelled'], None
                        if sys.gettrace() is None:
                            # CPython drops a thread's trace function when calling it fails (a program
                            # at the recursion limit): the next operation is pre-emptible again
                            sc.rearm(i)
                        steps = sc.end_op(i)
                        after = [V.snap_deep(a) for a in args]
                        rec['outcome'] = outcome
                        rec['steps'] = steps
                        rec['a1'] = before == after
                        if not rec['a1']:
                            rec['a1_detail'] = {'before': repr(before)[:400], 'after': repr(after)[:400]}
                        if res is not None:
                            rec['strict'] = V.strict(res)
                            shared = V.list_ids(res) & arg_lists
                            rec['a2'] = not shared
                            if cfg.get('scribble') and rec['a2']:
                                # the result is the caller's: it overwrites every list in it
                                # (the outcome was recorded above; nothing the library keeps may notice)
                                if V.scribble(res, scribble_mark):
                                    rec['scribbled'] = True
                        else:
                            rec['a2'] = True
                elif kind == 'derive':
                    src = resolve(op['src'])
                    if src is None:
                        rec['outcome'] = ['no-fn']
                    else:
                        text_before = src.format()
                        try:
                            g = _apply_strategy(src, op['strategy'], op['kw'])
                            derived[json.dumps(op['ref'])] = g
                            rec['outcome'] = ['ok']
                        except (SimCancel, StepLimit):
                            raise
                        except Exception as e:
                            rec['outcome'] = ['exc', type(e).__name__]
                        rec['src_text_same'] = src.format() == text_before
                elif kind == 'factory':
                    try:
                        res = load_ns('fac')[op['maker']](op['vals'], V.build_arg(op['x'], {}), ctx_of(spaces, op['ctx']))
                        rec['outcome'] = ['ok', [V.denote(v) for v in res]]
                    except (SimCancel, StepLimit):
                        raise
                    except Exception as e:
                        rec['outcome'] = ['exc', type(e).__name__]
                elif kind == 'new_rt':
                    own_rt = fp.BytecodeInterpreter()
                    rec['outcome'] = ['ok']
                elif kind == 'swap_default':
                    fp.set_default_interpreter(fp.BytecodeInterpreter())
                    rec['outcome'] = ['ok']
                elif kind == 'redefine':
                    # executing a module (runpy + inspect caches of the standard library) is not
                    # what is under test: it runs without pre-emption; the *history* event is
                    # that new Function objects with old names now exist
                    sc.atomic[i] = True
                    try:
                        spaces[op['ns']] = fresh_ns(op['base'], f'_{i}_{j}')
                    finally:
                        sc.atomic[i] = False
                    rec['outcome'] = ['ok']
                elif kind == 'engine':
                    eng = make_exact_engine(op['seed'], op['rate'])
                    engines.append(eng)
                    # two callers *registering* at the same moment is not an evaluation (EngineList.register
                    # sorts with a Python key function and is not reentrant): one registrant at a time,
                    # but evaluations of the other threads do interleave with it
                    if busy.get('registering'):
                        engines.pop()
                        rec['outcome'] = ['skipped-another-registration-in-progress']
                    else:
                        busy['registering'] = True
                        try:
                            register_engine(eng, priority=1000 + len(engines))
                        finally:
                            busy['registering'] = False
                        rec['outcome'] = ['ok']
                elif kind == 'gc':
                    gc.collect()
                    rec['outcome'] = ['ok']
                elif kind == 'ambient':
                    _set_ambient(op['set'])
                    rec['outcome'] = ['ok']
                else:
                    rec['outcome'] = ['unknown-op']
            except SimCancel:
                sc.rearm(i)
                rec['outcome'] = ['cancelled']
            finally:
                sc.end_op(i)
            sc.note(f'O{i}.{j}:{json.dumps(rec.get("outcome"))};')
            rec['at'] = sc.steps
            history.append(rec)

    t0 = time.monotonic()
    ok = sched.run_threads([body] * n, timeout=cfg.get('timeout', 120.0))
    # probes (never alarms): ambient gmpy2 context of the main thread, cache sizes
    probes = {}
    try:
        import gmpy2
        probes['gmp_precision_main'] = gmpy2.get_context().precision
        probes['default_cache'] = len(fp.get_default_interpreter().func_cache)
    except Exception:
        pass
    return {
        'history': history, 'digest': sched.digest(), 'steps': sched.steps, 'switches': sched.switches,
        'segments': sched.segments, 'pairs': sorted(sched.pairs), 'cancel_fired': sched.cancelled_fired,
        'overrun': sched.overrun, 'errors': sched.errors, 'completed': ok, 'probes': probes,
        'engine_answers': sum(e.stats['answered'] for e in engines),
        'engine_asked': sum(e.stats['asked'] for e in engines),
        'wall': time.monotonic() - t0,
        'items': sched.items,
        'holds': sched.holds,
    }


# --------------------------------------------------------------------------
# reference: the same call, once, in a fresh process

def tree_hash() -> str:
    """Hash of everything a reference value depends on: the repository package, the workloads,
    the harness code that builds arguments and denotes results, and the interpreter."""
    import hashlib
    h = hashlib.sha256()
    h.update(sys.version.encode())
    try:
        import gmpy2
        h.update(gmpy2.version().encode() + gmpy2.mpfr_version().encode())
    except Exception:
        pass
    roots = [os.path.join(core.REPO, 'fpy2'), WL_DIR, os.path.join(core.VERIF, 'sim'), os.path.join(core.VERIF, 'checks')]
    for root in roots:
        for dp, dns, fns in sorted(os.walk(root)):
            dns.sort()
            if '__pycache__' in dp:
                continue
            for fn in sorted(fns):
                if fn.endswith('.py'):
                    p = os.path.join(dp, fn)
                    h.update(p.encode())
                    with open(p, 'rb') as f:
                        h.update(f.read())
    return h.hexdigest()[:20]


def setup_ref_dir():
    """
    Fresh-process references are a pure function of (tree, call); fork is very expensive in this
    sandbox (memory-management work is serialised system-wide), so they are kept on disk under a
    directory named by the hash of the whole tree they depend on.  Any change to /repo/fpy2, the
    workloads or the harness gives a new, empty directory.
    """
    if os.environ.get('VERIF_REF_DIR'):
        return
    base = os.path.join(core.VERIF, '.cache')
    d = os.path.join(base, 'refs-' + tree_hash())
    os.makedirs(d, exist_ok=True)
    os.utime(d, None)
    os.environ['VERIF_REF_DIR'] = d
    # disk is limited: keep the directories of the eight most recently used trees only
    import shutil
    olds = sorted((os.path.join(base, n) for n in os.listdir(base) if n.startswith('refs-')), key=os.path.getmtime, reverse=True)
    for p in olds[8:]:
        shutil.rmtree(p, ignore_errors=True)

_REF_MEMO: dict[str, list] = {}


def _ref_eval(key: dict, args_spec: list, ctxname) -> list:
    ns, name = key['root']
    sp = load_ns(ns)
    fn = sp[name]
    sys.setrecursionlimit(DEFAULT_RECURSION_LIMIT)
    if 'factory' in key:
        fn = fn(key['factory'])
    try:
        for strat, kw in key['chain']:
            fn = _apply_strategy(fn, strat, kw)
    except Exception as e:
        return ['derive-exc', type(e).__name__]
    memo: dict = {}
    args = [V.build_arg(a, memo) for a in args_spec]
    ctx = ctx_of(None, ctxname)
    try:
        res = fn(*args, ctx=ctx)
    except Exception as e:
        return ['exc', type(e).__name__]
    return ['ok', V.denote(res), V.strict(res)]


def reference(key: dict, args_spec: list, ctxname) -> list:
    """
    The outcome of the call done once in a fresh fork of the pristine template.  Memoised in this
    process and, within one invocation of the check, shared between workers through a scratch
    directory (fork is expensive here): the value is a pure function of (tree, call).
    """
    mk = json.dumps([key, args_spec, ctxname], sort_keys=True)
    if mk in _REF_MEMO:
        return _REF_MEMO[mk]
    shared = os.environ.get('VERIF_REF_DIR')
    path = os.path.join(shared, core.digest(mk) + '.json') if shared else None
    if path and os.path.exists(path):
        try:
            with open(path) as f:
                got = json.load(f)
            if got[0] == mk:
                _REF_MEMO[mk] = got[1]
                return got[1]
        except Exception:
            pass
    from sim import zygote
    zygote.start()
    kind, val = zygote.request({'kind': 'ref', 'key': key, 'args': args_spec, 'ctx': ctxname}, timeout=90.0)
    val = val if kind == 'ok' else ['undecided', kind]
    _REF_MEMO[mk] = val
    if path and val[0] != 'undecided':
        try:
            tmp = f'{path}.{os.getpid()}.tmp'
            with open(tmp, 'w') as f:
                json.dump([mk, val], f)
            os.replace(tmp, path)
        except Exception:
            pass
    return val


# --------------------------------------------------------------------------
# judging a run

def judge(run: dict, out: dict) -> list[dict]:
    """A3 / A1 / A2 / H1 over the recorded history; returns violation records."""
    vios = []
    groups: dict[str, list] = {}
    derive_ok = {}
    for rec in out['history']:
        op = run['threads'][rec['t']][rec['j']]
        if rec['op'] == 'derive':
            derive_ok[json.dumps(op['ref'])] = rec.get('outcome')
        if rec['op'] == 'factory':
            # each definition made in the loop, evaluated while its captured value was current,
            # against the same definition made once in a fresh process
            oc = rec.get('outcome') or ['missing']
            sig = {'fn': op['maker'], 'ns': 'fac', 'sub': run['cfg']['sub']}
            exp = []
            for v in op['vals']:
                ref = reference({'root': ['fac', op['one']], 'factory': v, 'chain': []}, [op['x']], op['ctx'])
                exp.append(ref)
            if any(e[0] == 'undecided' for e in exp) or oc[0] in ('cancelled', 'missing'):
                continue
            if all(e[0] == 'ok' for e in exp):
                want = ['ok', [e[1] for e in exp]]
            else:
                want = [e for e in exp if e[0] != 'ok'][0]
            if oc != want:
                vios.append(_vio('A3-result-depends-on-history-or-schedule', sig,
                                 {'op': op, 'observed': oc, 'reference': want, 't': rec['t'], 'j': rec['j']}, run))
            continue
        if rec['op'] != 'call':
            continue
        oc = rec.get('outcome') or ['missing']
        fnname = op['key']['root'][1] + ''.join('+' + s for s, _ in op['key']['chain'])
        base_sig = {'fn': fnname, 'ns': op['key']['root'][0], 'sub': run['cfg']['sub']}
        if rec.get('a1') is False:
            vios.append(_vio('A1-argument-modified', base_sig, {'op': op, 'rec': rec}, run))
        if rec.get('a2') is False:
            vios.append(_vio('A2-result-aliases-argument', base_sig, {'op': op, 'rec': rec}, run))
        if oc[0] in ('cancelled', 'no-fn', 'missing'):
            continue
        ref = reference(op['key'], op['args'], op['ctx'])
        rec['ref'] = ref
        if ref[0] == 'undecided':
            rec['undecided'] = True
            continue
        if ref[0] == 'derive-exc':
            # the derivation itself fails in a fresh process; it must have failed here too
            continue
        strict_ref = ref[2] if len(ref) > 2 else None
        ref = ref[:2]
        if oc != ref:
            cls = 'H2-source-changed-by-derivation' if op.get('h2') else 'A3-result-depends-on-history-or-schedule'
            vios.append(_vio(cls, base_sig, {'op': op, 'observed': oc, 'reference': ref, 't': rec['t'], 'j': rec['j']}, run))
        elif strict_ref is not None and rec.get('strict') is not None and rec['strict'] != strict_ref \
                and 'engine' not in run['cfg'].get('fault_kinds', ()):
            # the same value, but not the same result: representation, flags or context of some number in
            # it differ from the fresh-process result (not judged when an extra engine may have answered:
            # another engine may legitimately represent the same value differently)
            vios.append(_vio('A3m-result-metadata-depends-on-history-or-schedule', base_sig,
                             {'op': op, 'observed': oc, 't': rec['t'], 'j': rec['j'], 'strict': [rec['strict'], strict_ref]}, run))
        gk = json.dumps([op['key'], op['args'], op['ctx']], sort_keys=True)
        groups.setdefault(gk, []).append((oc, rec['t'], rec['j']))
    for gk, lst in groups.items():
        first = lst[0][0]
        for oc, t, j in lst[1:]:
            if oc != first:
                key = json.loads(gk)[0]
                vios.append(_vio('H1-same-call-two-values', {'fn': key['root'][1], 'ns': key['root'][0], 'sub': run['cfg']['sub']},
                                 {'call': json.loads(gk), 'values': [[o, t, j] for o, t, j in lst]}, run))
                break
    return vios


def _vio(cls: str, base_sig: dict, detail: dict, run: dict) -> dict:
    sig = dict(base_sig, cls=cls)
    return {'property': PROP, 'cls': cls, 'signature': sig, 'detail': detail, 'seed': run['seed'],
            'case': run}


# --------------------------------------------------------------------------
# one simulated run

def simulate(run: dict, timeout: float = 180.0):
    """One hermetic execution: a fresh fork of the zygote (sim/zygote.py)."""
    from sim import zygote
    zygote.start()
    return zygote.request({'kind': 'run', 'run': run}, timeout=timeout)


def run_one(seed: int, tier: str, sub: str) -> dict:
    st = core.Stats()
    run = gen_run(seed, tier, sub)
    kind, out = simulate(run)
    st.count('runs', sub)
    if kind != 'ok':
        st.count('undecided_runs', kind)
        if kind == 'exc':
            return {'harness_error': f'run child raised:\n{out}', 'seed': seed}
        return {'stats': st.dump(), 'violations': []}
    if out['errors']:
        return {'harness_error': 'scheduler error: ' + out['errors'][0], 'seed': seed}
    vios = judge(run, out)
    collect_stats(st, run, out)
    return {'stats': st.dump(), 'violations': vios}


def collect_stats(st: core.Stats, run: dict, out: dict):
    cfg = run['cfg']
    st.count('steps', 'total', out['steps'])
    st.count('switches', 'total', out['switches'])
    st.count('threads', str(cfg['nthreads']))
    st.count('shapes', cfg.get('shape', 'free'))
    if out['overrun']:
        st.count('undecided_runs', 'step-cap')
    st.add('interleavings', out['digest'])
    for p in out['pairs']:
        st.add('pairs', p)
    st.count('faults', 'cancel', out['cancel_fired'])
    st.count('faults', 'engine-answers', out['engine_answers'])
    calls = ok = 0
    for rec in out['history']:
        if rec['op'] == 'call':
            calls += 1
            oc = rec.get('outcome', ['missing'])
            st.count('call_outcomes', oc[0] if oc[0] != 'exc' else 'exc:' + oc[1])
            if rec.get('undecided'):
                st.count('undecided', 'reference')
            if oc[0] == 'ok':
                ok += 1
            if rec.get('scribbled'):
                st.count('faults', 'result-scribbled')
        elif rec['op'] in ('engine', 'swap_default', 'redefine', 'gc', 'new_rt', 'factory', 'ambient'):
            st.count('faults', rec['op'])
        elif rec['op'] == 'derive':
            st.count('faults', 'derive')
            if rec.get('src_text_same') is False:
                st.count('probes', 'source-text-changed-by-derivation')
    st.count('calls', 'total', calls)
    st.count('calls', 'completed', ok)
    shape = core.digest([[o['op'] for o in ops] for ops in run['threads']])
    st.add('distinct', f"{out['digest']}")
    st.add('history_shapes', shape)
    if len(st.samples) < 1 and (run['seed'] % 5) == 0:
        st.samples.append({'seed': run['seed'], 'cfg': cfg,
                           'threads': [[_short(o) for o in ops] for ops in run['threads']],
                           'steps': out['steps'], 'switches': out['switches'],
                           'outcomes': [[r['t'], r['j'], r.get('outcome', [''])[0]] for r in out['history']][:40]})


def _short(o: dict) -> str:
    if o['op'] == 'call':
        fn = o['fn'][1] if o['fn'][0] != 'd' else f"derived{o['fn'][1:]}"
        return f"call {fn} ctx={o['ctx']} rt={o['rt']}" + (f" cancel@{o['cancel']}" if o.get('cancel') else '')
    if o['op'] == 'derive':
        return f"derive {o['strategy']}({o['src'][1]})"
    if o['op'] == 'factory':
        return f"factory {o['maker']}{o['vals']} x={o['x']} ctx={o['ctx']}"
    return o['op']


def run_plain(seed: int, tier: str) -> dict:
    return run_one(seed, tier, 'plain')


def run_faults(seed: int, tier: str) -> dict:
    return run_one(seed, tier, 'faults')


def run_captured(seed: int, tier: str) -> dict:
    return run_one(seed, tier, 'captured')


# --------------------------------------------------------------------------
# minimisation and replay

def _fails_same(run: dict, cls: str, fn: str) -> bool:
    kind, out = simulate(run, timeout=120.0)
    if kind != 'ok' or out['errors']:
        return False
    return any(v['cls'] == cls and v['signature']['fn'] == fn for v in judge(run, out))


def _with_ops(run: dict, keep: list) -> dict:
    """A copy of `run` keeping only the ops named in `keep` ((thread, index) pairs)."""
    ks = set(map(tuple, keep))
    r2 = json.loads(json.dumps(run))
    r2['threads'] = [[op for j, op in enumerate(ops) if (t, j) in ks] for t, ops in enumerate(run['threads'])]
    r2['schedule'] = None
    return r2


def minimise(v: dict) -> dict:
    run = v['case']
    cls, fn = v['cls'], v['signature']['fn']
    if not _fails_same(run, cls, fn):
        v['minimised'] = False
        v['note'] = 'did not reproduce in a fresh process'
        return v
    # 1. drop operations (keeping each thread's order), seeded schedule
    items = [(t, j) for t, ops in enumerate(run['threads']) for j in range(len(ops))]
    kept = core.ddmin(items, lambda sub: _fails_same(_with_ops(run, sub), cls, fn), max_tests=120)
    cur = _with_ops(run, kept)
    # 2. drop faults attached to calls
    for ops in cur['threads']:
        for op in ops:
            if op.get('cancel') is not None:
                saved = op['cancel']
                op['cancel'] = None
                if not _fails_same(cur, cls, fn):
                    op['cancel'] = saved
    # 3. make the schedule explicit and coarsen it
    kind, out = simulate(cur)
    if kind == 'ok':
        segs = [s for s in out['segments']]
        explicit = dict(cur, schedule=pack_schedule(segs))
        if _fails_same(explicit, cls, fn):
            def coarsen(segs):
                merged = []
                for ent in segs:
                    t, n = ent[0], ent[1]
                    if merged and merged[-1][0] == t and len(merged[-1]) == 2:
                        merged[-1][1] += n
                        if len(ent) > 2:
                            merged[-1].append(ent[2])
                    else:
                        merged.append(list(ent))
                return merged
            segs = coarsen(segs)
            # try to drop whole segments' pre-emptions (merge neighbours of the same thread after removal)
            idx = list(range(len(segs)))

            def test(keep_idx):
                s2 = coarsen([segs[k] for k in keep_idx])
                return _fails_same(dict(cur, schedule=pack_schedule(s2)), cls, fn)
            if len(idx) > 1:
                keep_idx = core.ddmin(idx, test, max_tests=80)
                s2 = coarsen([segs[k] for k in keep_idx])
                if _fails_same(dict(cur, schedule=pack_schedule(s2)), cls, fn):
                    segs = s2
            cur = dict(cur, schedule=pack_schedule(segs), schedule_readable=segs[:200])
    kind, out = simulate(cur)
    vs = [x for x in judge(cur, out) if x['cls'] == cls and x['signature']['fn'] == fn] if kind == 'ok' else []
    if not vs:
        v['minimised'] = False
        return v
    vv = vs[0]
    vv['seed'] = v.get('seed', 0)
    vv['minimised'] = True
    vv['ops_before'] = len(items)
    vv['ops_after'] = sum(len(o) for o in cur['threads'])
    return vv


def replay(path: str) -> int:
    with open(path) as f:
        v = json.load(f)
    run = v['case']
    kind, out = simulate(run)
    if kind != 'ok':
        print(f'replay: run did not complete ({kind})')
        return core.EXIT_HARNESS
    hits = [x for x in judge(run, out) if x['cls'] == v['cls'] and x['signature']['fn'] == v['signature']['fn']]
    if hits:
        print(f"VIOLATION property={PROP} replay={path}")
        print(f"  class={hits[0]['cls']} detail={json.dumps(hits[0]['detail'], default=str)[:700]}")
        return core.EXIT_VIOLATION
    print(f'replay of {path}: no violation (class {v["cls"]} did not recur); digest={out["digest"]}')
    return core.EXIT_OK


# --------------------------------------------------------------------------
# batch

def main(tier: str) -> int:
    total = {'quick': 120.0, 'thorough': 900.0}[tier]
    total = float(os.environ.get('VERIF_BUDGET_S', total))
    parts = [('plain', 'run_plain', 0.4), ('faults', 'run_faults', 0.52), ('captured', 'run_captured', 0.08)]
    setup_ref_dir()
    from sim import zygote
    zygote.start()
    try:
        return _main(tier, total, parts)
    finally:
        zygote.stop()


def canonical_captured_history() -> dict:
    """The shortest histories that show finding F2, run first on every invocation so that the
    listed findings are re-confirmed (and re-reported as KNOWN-FINDING) each time: the same call
    twice, for the captured-list writer and for the writer through an alias."""
    def call(name):
        return {'op': 'call', 'fn': ['cap', name], 'key': {'root': ['cap', name], 'chain': []}, 'args': [['i', 1]],
                'ctx': 'FP64', 'rt': 'default', 'cancel': None}
    return {'seed': 0, 'cfg': {'sub': 'captured', 'nthreads': 1, 'mean_quantum': 1000, 'opcode': False, 'hot_bias': 0.0,
                               'nops': 4, 'faults': False, 'fault_kinds': [], 'sweep': False},
            'threads': [[call('bump'), call('bump'), call('bump_alias'), call('bump_alias')]],
            'schedule': None, 'sched_seed': 1}


def _main(tier: str, total: float, parts: list) -> int:
    st = core.Stats()
    violations, herrs, seeds = [], [], []
    runs = 0
    wall = 0.0
    workers = 0
    canon = canonical_captured_history()
    kind, out = simulate(canon)
    if kind == 'ok' and not out['errors']:
        violations += judge(canon, out)
        runs += 1
    else:
        herrs.append(f'canonical captured history did not run: {kind} {out}')
    for sub, fn, frac in parts:
        res = core.run_batch(PROP + ':' + sub, 'checks.c18', fn, tier=tier, budget_s=total * frac, max_runs=None, chunk=1,
                             chunk_timeout=900.0, workers=6 if sub == 'captured' else None)
        st.merge(res['stats'].dump(), max_samples=6)
        violations += res['violations']
        herrs += res['harness_errors']
        runs += res['runs']
        wall += res['wall_s']
        seeds += res['seeds'][:4]
        workers = res['workers']
    known = core.load_known(PROP)
    code = core.report(PROP, violations, known, herrs, minimise=minimise)
    c = st.counters
    steps = c.get('steps', {}).get('total', 0)
    # reach: which pairs of critical regions were seen with one thread parked in X while the baton
    # went to a thread parked in Y (file:function at the hand-off), and which never were
    regions = ['byte.py:eval', 'byte.py:compile', 'value.py:to_value', 'value.py:from_value', 'byte.py:_call_fpy',
               'byte.py:_eval_call', 'gmputils.py:_mpfr_call_with_prec', 'gmputils.py:mpfr_call', 'engine.py:__iter__',
               'engine.py:register', 'ops.py:_normalize', 'interpreter.py:_func_ctx', 'interpreter.py:_default_function_call']
    seen_pairs = set()
    for p in st.sets.get('pairs', ()):
        a, _, b = p.partition('|')
        if a in regions and b in regions:
            seen_pairs.add(tuple(sorted((a, b))))
    all_pairs = {tuple(sorted((a, b))) for a in regions for b in regions}
    never = sorted(all_pairs - seen_pairs)
    coverage = {
        'evaluations': runs,
        'distinct_nontrivial': len(st.sets.get('distinct', ())),
        'rule': ('One evaluation = one simulated run: a fresh fork of a pristine process in which 1-4 real caller threads '
                 'execute seeded op lists under the baton scheduler; every completed call is compared with the same call done '
                 'once in a fresh process. Distinct = distinct event-log digests (hand-off sequence with code locations plus '
                 'every op outcome); a run is non-trivial when it made at least one call, which every generated run does.'),
        'samples': st.samples[:3] or [{'note': 'no sample drawn'}],
        'simulated_runs': runs,
        'runs_per_hour': int(runs / wall * 3600) if wall else 0,
        'seeds': {'VERIF_SEED': core.base_seed(), 'first_run_seeds': seeds[:8]},
        'simulated_time': {'unit': 'scheduler steps (trace events)', 'total': steps},
        'baton_handoffs': c.get('switches', {}).get('total', 0),
        'calls': dict(c.get('calls', {})),
        'call_outcomes': dict(c.get('call_outcomes', {})),
        'faults_fired': dict(c.get('faults', {})),
        'sub_batches': dict(c.get('runs', {})),
        'threads_per_run': dict(c.get('threads', {})),
        'run_shapes': dict(c.get('shapes', {})),
        'interleavings_distinct': len(st.sets.get('interleavings', ())),
        'history_shapes_distinct': len(st.sets.get('history_shapes', ())),
        'handoff_location_pairs': len(st.sets.get('pairs', ())),
        'critical_region_pairs': {'regions': regions, 'reached': len(seen_pairs), 'of': len(all_pairs),
                                  'never_reached': [f'{a} || {b}' for a, b in never][:60]},
        'undecided': dict(c.get('undecided', {})) | dict(c.get('undecided_runs', {})),
        'probes': dict(c.get('probes', {})),
        'components': {
            'real': ['all of fpy2 (parser, bytecode interpreter, ops, engines, contexts, strategies)', 'gmpy2/MPFR',
                     'CPython threads (real OS threads, one runnable at a time)'],
            'stub': ['none of the library; simulator-owned: who runs next, cancellation instants, the extra exact engine'],
        },
        'workers': workers,
        'exhaustive': False,
    }
    unlisted = [v for v in violations if core.match_known(v, known) is None]
    coverage['known_finding_occurrences'] = len(violations) - len(unlisted)    # F2, re-confirmed on every invocation
    core.write_evidence(PROP, tier, 'exploration', coverage, wall_s=wall, violations=len(unlisted),
                        assumptions=['the reference is the same tree evaluated once in a fresh process: a change that moves both sides alike is invisible (that is C01-C04 territory)',
                                     'only GIL-style interleavings at line/opcode boundaries of fpy2 and generated code are explored; C extensions are atomic',
                                     'representation, flags and context of results are compared only in runs where no extra engine was registered; denoted values in every run'])
    print(f'{PROP} {tier}: runs={runs} steps={steps} handoffs={coverage["baton_handoffs"]} '
          f'distinct={coverage["distinct_nontrivial"]} violations={len(unlisted)} known-finding-occurrences={len(violations) - len(unlisted)} '
          f'wall={wall:.1f}s')
    return code
