"""
C17 — stochastic rounding picks a neighbour with the exact probability.

The simulator owns the one random source of the library.  For each generated
case (context family and parameters, base mode, k, operand position, encoding,
route to the rounding) it substitutes a scripted source, sweeps every one of
the 2^k values the source may return, and checks the outcome space against an
independent oracle (`c17_oracle`).  Fault kind: the source raises.
"""

from __future__ import annotations

import random
import sys
from fractions import Fraction

from sim import core
from checks import c17_oracle as orc

PROP = 'C17'

MODES = ['RNE', 'RNA', 'RTP', 'RTN', 'RTZ', 'RAZ', 'RTO', 'RTE']
FLOAT_FAMS = ['MPFloat', 'MPSFloat', 'MPBFloat', 'EFloat', 'IEEE']
FIXED_FAMS = ['MPFixed', 'MPBFixed', 'Fixed', 'SMFixed']
FAMILIES = FLOAT_FAMS + FIXED_FAMS
BOUNDED = {'MPBFloat', 'EFloat', 'IEEE', 'MPBFixed', 'Fixed', 'SMFixed'}
SOURCES = ['Random', 'Generator', 'global']


# --------------------------------------------------------------------------
# scripted random sources (the only stubs)

class SourceLog:
    def __init__(self):
        self.calls: list[tuple[int, int]] = []   # (k requested, value returned)
        self.script: list[int] | None = None      # values to return, cycled; None = 0
        self.fail_at: int | None = None           # call index at which the source raises
        self.pos = 0

    def next(self, k: int) -> int:
        idx = len(self.calls)
        if self.fail_at is not None and idx == self.fail_at:
            self.calls.append((k, -1))
            raise SourceFailure('simulated entropy source failure')
        if self.script:
            v = self.script[self.pos % len(self.script)]
            self.pos += 1
        else:
            v = 0
        v &= (1 << k) - 1 if k > 0 else 0
        self.calls.append((k, v))
        return v


class SourceFailure(Exception):
    pass


class SourceMisuse(Exception):
    """The library asked the source for something other than k uniformly distributed bits."""


class ScriptedRandom(random.Random):
    """A `random.Random` whose `getrandbits` is scripted."""

    def __init__(self, log: SourceLog):
        super().__init__(0)
        self._log = log

    def getrandbits(self, k):
        return self._log.next(k)


def _np_generator_base():
    try:
        import numpy as np
        return np.random.Generator, np.random.PCG64
    except Exception:
        return object, None


_NPGen, _NPBits = _np_generator_base()


class ScriptedGenerator(_NPGen):
    """A numpy `Generator` (a real subclass when numpy is there, else duck-typed) whose
    `.integers(lo, hi)` is scripted."""

    def __init__(self, log: SourceLog):
        if _NPBits is not None:
            super().__init__(_NPBits(0))
        self._log = log

    def integers(self, low, high=None, **kw):
        if high is None:
            low, high = 0, low
        k = (int(high) - 1).bit_length() if high > 1 else 0
        if int(low) != 0 or (1 << k) != int(high) or kw.get('endpoint'):
            raise SourceMisuse(f'integers({low}, {high}, {kw}) is not "k uniform bits": the half-open range [0, 2^k) is')
        return self._log.next(k)


class GlobalPatch:
    """Patches the process-global `random.getrandbits` (contexts with rng=None)."""

    def __init__(self, log: SourceLog):
        self._log = log

    def __enter__(self):
        self._old = random.getrandbits
        random.getrandbits = lambda k: self._log.next(k)
        return self

    def __exit__(self, *a):
        random.getrandbits = self._old


# --------------------------------------------------------------------------
# case construction (all values JSON-friendly)

def _fr(s) -> Fraction:
    return Fraction(s)


def _ctor_context(case: dict, rng_obj):
    import fpy2 as fp
    from fpy2.number import RealFloat
    fam = case['family']
    pr = case['params']
    rm = getattr(fp.RM, case['mode'])
    k = case['k']
    ov = getattr(fp.OV, case['overflow']) if case.get('overflow') else None

    def rf(fr: str, neg=False):
        q = Fraction(fr)
        r = RealFloat.from_rational(abs(q))
        return RealFloat(s=neg, x=r) if neg else r

    if fam == 'MPFloat':
        return fp.MPFloatContext(pr['p'], rm, k, rng=rng_obj)
    if fam == 'MPSFloat':
        return fp.MPSFloatContext(pr['p'], pr['emin'], rm, k, rng=rng_obj)
    if fam == 'MPBFloat':
        kw = {}
        if pr.get('maxneg') is not None:
            kw['neg_maxval'] = rf(pr['maxneg'], True)
        return fp.MPBFloatContext(pr['p'], pr['emin'], rf(pr['maxpos']), rm, ov, k, rng=rng_obj,
                                  enable_nan=pr.get('enable_nan', True), enable_inf=pr.get('enable_inf', True), **kw)
    if fam == 'EFloat':
        nk = getattr(fp.EFloatNanKind, pr['nan_kind']) if hasattr(fp, 'EFloatNanKind') else None
        if nk is None:
            from fpy2.number.context.efloat import EFloatNanKind
            nk = getattr(EFloatNanKind, pr['nan_kind'])
        return fp.EFloatContext(pr['es'], pr['nbits'], pr['enable_inf'], nk, pr['eoffset'], rm, ov, k, rng=rng_obj)
    if fam == 'IEEE':
        return fp.IEEEContext(pr['es'], pr['nbits'], rm, ov, k, rng=rng_obj)
    if fam == 'MPFixed':
        return fp.MPFixedContext(pr['nmin'], rm, k, rng=rng_obj)
    if fam == 'MPBFixed':
        kw = {}
        if pr.get('maxneg') is not None:
            kw['neg_maxval'] = rf(pr['maxneg'], True)
        return fp.MPBFixedContext(pr['nmin'], rf(pr['maxpos']), rm, ov, k, rng=rng_obj, **kw)
    if fam == 'Fixed':
        return fp.FixedContext(pr['signed'], pr['scale'], pr['nbits'], rm, ov, k, rng=rng_obj)
    if fam == 'SMFixed':
        return fp.SMFixedContext(pr['scale'], pr['nbits'], rm, ov, k, rng=rng_obj)
    raise ValueError(fam)


BUILDS = ['ctor', 'ctor', 'with_rng', 'with_rng_none', 'with_k', 'with_rm', 'from_format']


def build_context(case: dict, rng_obj, decoy_log: 'SourceLog | None' = None):
    """
    The context under test, reached the way `case['build']` says: straight from
    the constructor, or through `with_params` / `from_format`, which must carry
    the random source, the bit count and the mode along.  A decoy source stands
    in wherever the final source must *replace* an earlier one.
    """
    build = case.get('build', 'ctor')
    if build == 'ctor':
        return _ctor_context(case, rng_obj)
    decoy = ScriptedRandom(decoy_log if decoy_log is not None else SourceLog())
    if build == 'with_rng':
        return _ctor_context(case, decoy).with_params(rng=rng_obj)
    if build == 'with_rng_none':
        return _ctor_context(case, None).with_params(rng=rng_obj)
    if build == 'with_k':
        k = case['k']
        other = 0 if k is None else (k + 1 if k < 3 else k - 1)
        return _ctor_context(dict(case, k=other), rng_obj).with_params(num_randbits=k)
    if build == 'with_rm':
        import fpy2 as fp
        other = 'RTZ' if case['mode'] != 'RTZ' else 'RNE'
        return _ctor_context(dict(case, mode=other), decoy).with_params(rm=getattr(fp.RM, case['mode']), rng=rng_obj)
    if build == 'from_format':
        import fpy2 as fp
        base = _ctor_context(dict(case, k=0), None)
        kw = {'rm': getattr(fp.RM, case['mode']), 'num_randbits': case['k'], 'rng': rng_obj}
        if case.get('overflow'):
            kw['overflow'] = getattr(fp.OV, case['overflow'])
        return type(base).from_format(base.format(), **kw)
    raise ValueError(build)


def grid_of(case: dict, ctx=None) -> dict:
    """The format's grid, from the family's documented parameters."""
    fam = case['family']
    pr = case['params']
    if fam == 'MPFloat':
        return {'kind': 'float', 'p': pr['p'], 'emin': None, 'maxpos': None, 'maxneg': None}
    if fam == 'MPSFloat':
        return {'kind': 'float', 'p': pr['p'], 'emin': pr['emin'], 'maxpos': None, 'maxneg': None}
    if fam == 'MPBFloat':
        mp = Fraction(pr['maxpos'])
        mn = Fraction(pr['maxneg']) if pr.get('maxneg') is not None else mp
        return {'kind': 'float', 'p': pr['p'], 'emin': pr['emin'], 'maxpos': mp, 'maxneg': mn}
    if fam == 'IEEE':
        es, nbits = pr['es'], pr['nbits']
        p = nbits - es
        emax = (1 << (es - 1)) - 1
        emin = 1 - emax
        mx = (Fraction(2) - Fraction(1, 1 << (p - 1))) * Fraction(2) ** emax
        return {'kind': 'float', 'p': p, 'emin': emin, 'maxpos': mx, 'maxneg': mx}
    if fam == 'EFloat':
        # format parameters are read from the context object (configuration, not rounding code)
        assert ctx is not None
        try:
            mp = ctx.maxval(False).as_rational()
            mn = -ctx.maxval(True).as_rational()
        except ValueError:
            return None
        return {'kind': 'float', 'p': ctx.pmax, 'emin': ctx.emin, 'maxpos': mp, 'maxneg': mn}
    if fam == 'MPFixed':
        return {'kind': 'fixed', 'nmin': pr['nmin'], 'maxpos': None, 'maxneg': None}
    if fam == 'MPBFixed':
        mp = Fraction(pr['maxpos'])
        mn = Fraction(pr['maxneg']) if pr.get('maxneg') is not None else mp
        return {'kind': 'fixed', 'nmin': pr['nmin'], 'maxpos': mp, 'maxneg': mn}
    if fam == 'Fixed':
        q = Fraction(2) ** pr['scale']
        if pr['signed']:
            return {'kind': 'fixed', 'nmin': pr['scale'] - 1, 'maxpos': ((1 << (pr['nbits'] - 1)) - 1) * q,
                    'maxneg': (1 << (pr['nbits'] - 1)) * q}
        return {'kind': 'fixed', 'nmin': pr['scale'] - 1, 'maxpos': ((1 << pr['nbits']) - 1) * q, 'maxneg': Fraction(0)}
    if fam == 'SMFixed':
        q = Fraction(2) ** pr['scale']
        mx = ((1 << (pr['nbits'] - 1)) - 1) * q
        return {'kind': 'fixed', 'nmin': pr['scale'] - 1, 'maxpos': mx, 'maxneg': mx}
    raise ValueError(fam)


def gen_params(r: random.Random, fam: str) -> dict:
    if fam == 'MPFloat':
        return {'p': r.randint(1, 6)}
    if fam == 'MPSFloat':
        return {'p': r.randint(1, 6), 'emin': r.randint(-6, 6)}
    if fam == 'MPBFloat':
        p = r.randint(1, 6)
        emin = r.randint(-6, 6)
        e = emin + r.randint(0, 5)
        c = r.randint(1 << (p - 1), (1 << p) - 1)
        mp = c * Fraction(2) ** (e - p + 1)
        pr = {'p': p, 'emin': emin, 'maxpos': str(mp), 'enable_nan': r.random() < 0.8, 'enable_inf': r.random() < 0.7}
        if r.random() < 0.3:
            e2 = emin + r.randint(0, 5)
            c2 = r.randint(1 << (p - 1), (1 << p) - 1)
            pr['maxneg'] = str(c2 * Fraction(2) ** (e2 - p + 1))
        else:
            pr['maxneg'] = None
        return pr
    if fam == 'EFloat':
        es = r.randint(1, 4)
        nbits = r.randint(es + 1, 8)
        return {'es': es, 'nbits': nbits, 'enable_inf': r.random() < 0.5,
                'nan_kind': r.choice(['IEEE_754', 'MAX_VAL', 'NEG_ZERO', 'NONE']), 'eoffset': r.randint(-3, 3)}
    if fam == 'IEEE':
        es = r.randint(2, 4)
        return {'es': es, 'nbits': r.randint(es + 2, 9)}
    if fam == 'MPFixed':
        return {'nmin': r.randint(-6, 6)}
    if fam == 'MPBFixed':
        nmin = r.randint(-6, 6)
        q = Fraction(2) ** (nmin + 1)
        pr = {'nmin': nmin, 'maxpos': str(r.randint(1, 70) * q), 'maxneg': None}
        if r.random() < 0.3:
            pr['maxneg'] = str(r.randint(0, 70) * q)
        return pr
    if fam == 'Fixed':
        signed = r.random() < 0.6
        return {'signed': signed, 'scale': r.randint(-6, 6), 'nbits': r.randint(2 if signed else 1, 8)}
    if fam == 'SMFixed':
        return {'scale': r.randint(-6, 6), 'nbits': r.randint(2, 8)}
    raise ValueError(fam)


def gen_overflow(r: random.Random, fam: str):
    if fam in ('MPBFloat', 'EFloat', 'IEEE'):
        return r.choice(['OVERFLOW', 'SATURATE', 'ASSERT'])
    if fam in ('MPBFixed', 'Fixed', 'SMFixed'):
        return r.choice(['OVERFLOW', 'SATURATE', 'WRAP', 'ASSERT'])
    return None


POSITIONS = ['normal', 'subnormal', 'zero_gap', 'below_pow2', 'top_binade', 'top_gap', 'far']
# widths (in digits above the rounding position / exponents above the smallest) of the 'far' operands:
# around the sizes at which an implementation may switch representation (machine words, double, quad)
FAR = list(range(48, 72)) + list(range(56, 68)) + [100, 112, 113, 114, 127, 128, 129, 200, 1023, 1024, 1025, 1074]


def gen_operand(r: random.Random, grid: dict, k_eff: int, negative: bool, want: str):
    """
    Picks a lower neighbour `lo = m * 2^qe` on the grid according to the wanted
    position class; returns (m, qe, position actually used) or None.
    """
    mx = grid['maxneg'] if negative else grid['maxpos']
    if grid['kind'] == 'fixed':
        qe = grid['nmin'] + 1
        q = Fraction(2) ** qe
        top = None if mx is None else int(mx / q)
        if want == 'top_gap':
            if top is None:
                return None
            return top, qe, 'top_gap'
        if want == 'zero_gap':
            if top is not None and top < 1:
                return None
            return 0, qe, 'zero_gap'
        hi_m = 200 if top is None else top - 1
        if hi_m < 1:
            return None
        if want == 'far':
            # an operand many digits wide above the rounding position
            b = r.choice(FAR)
            m = (1 << (b - 1)) | r.getrandbits(b - 1)
            if top is not None and m > hi_m:
                return None
            return m, qe, 'far'
        if want == 'below_pow2':
            b = r.randint(1, max(1, hi_m.bit_length()))
            m = (1 << b) - 1
            if m > hi_m:
                return None
            return m, qe, 'below_pow2'
        if want == 'top_binade':
            if top is None:
                return None
            return r.randint(max(1, hi_m // 2), hi_m), qe, 'top_binade'
        return r.randint(1, hi_m), qe, 'normal'
    p, emin = grid['p'], grid['emin']
    if mx is not None:
        if mx == 0:
            return None
        e_top = orc.floor_log2(orc.Rational(mx))
    else:
        e_top = None
    if want == 'top_gap':
        if mx is None:
            return None
        qe = max(e_top, emin if emin is not None else e_top) - p + 1
        m = mx / Fraction(2) ** qe
        if m.denominator != 1:
            return None
        return int(m), qe, 'top_gap'
    if want in ('subnormal', 'zero_gap'):
        if emin is None:
            return None
        qe = emin - p + 1
        if want == 'zero_gap':
            m = 0
        else:
            if p < 2:
                return None
            m = r.randint(1, (1 << (p - 1)) - 1)
        lo = m * Fraction(2) ** qe
        if mx is not None and lo + Fraction(2) ** qe > mx:
            return None
        return m, qe, want
    # normal binades
    e_lo = emin if emin is not None else -8
    e_hi = (e_top if e_top is not None else e_lo + 10)
    if e_hi < e_lo:
        return None
    if want == 'far':
        # a binade far above the smallest one (unbounded formats only)
        if e_top is not None:
            return None
        e = e_lo + r.choice(FAR)
    elif want == 'top_binade' and e_top is not None:
        e = e_top
    else:
        e = r.randint(e_lo, e_hi)
    qe = e - p + 1
    if want == 'below_pow2':
        m = (1 << p) - 1
    else:
        m = r.randint(1 << (p - 1), (1 << p) - 1)
    lo = m * Fraction(2) ** qe
    if mx is not None and lo + Fraction(2) ** qe > mx:
        # try to stay strictly inside the range
        m2 = int(mx / Fraction(2) ** qe) - 1
        if m2 < (1 << (p - 1)):
            return None
        m = r.randint(1 << (p - 1), m2)
    return m, qe, (want if want in ('below_pow2', 'top_binade', 'far') else 'normal')


def gen_offset(r: random.Random, k: int, allow_nondyadic: bool):
    """An offset t in [0, 1) of the gap, as (Fraction, class name)."""
    K = 1 << k
    j = r.randint(0, K - 1)
    kind = r.choice(['grid', 'grid_half', 'grid_eps', 'tiny', 'almost1', 'zero', 'nondyadic', 'rand', 'long_tail'])
    if kind == 'nondyadic' and not allow_nondyadic:
        kind = 'rand'
    if kind == 'zero':
        return Fraction(0), 'zero'
    if kind == 'grid':
        if j == 0:
            j = 1 if K > 1 else 0
        return Fraction(j, K), 'grid'
    if kind == 'grid_half':
        return Fraction(2 * j + 1, 2 * K), 'grid_half'
    if kind == 'grid_eps':
        d = r.choice([1, 3])
        sgn = r.choice([-1, 1])
        base = Fraction(j, K) if r.random() < 0.5 else Fraction(2 * j + 1, 2 * K)
        t = base + sgn * Fraction(1, K << (d + 1))
        if not (0 < t < 1):
            t = Fraction(2 * j + 1, 2 * K) + Fraction(1, K << (d + 1))
        return t, 'grid_eps'
    if kind == 'long_tail':
        # a dyadic operand whose significand runs to more than a thousand digits (an exact sum or
        # product does): a grid point, a half-way point or a random position, plus or minus a far tail
        base = r.choice([Fraction(j, K), Fraction(2 * j + 1, 2 * K), Fraction(r.randint(1, (K << 4) - 1), K << 4)])
        t = base + r.choice([-1, 1]) * Fraction(1, 1 << r.choice([1040, 1100, 1500, 2100]))
        if not (0 < t < 1):
            t = Fraction(2 * j + 1, 2 * K) + Fraction(1, 1 << 1100)
        return t, 'long_tail'
    if kind == 'tiny':
        return Fraction(1, 1 << 40), 'tiny'
    if kind == 'almost1':
        return 1 - Fraction(1, 1 << 40), 'almost1'
    if kind == 'nondyadic':
        d = r.choice([3, 5, 7, 9, 11, 13])
        n = r.randint(1, d - 1)
        base = Fraction(j, K) + Fraction(n, d * K)
        # sometimes land extremely close to a 2^-k grid point or half-way point
        if r.random() < 0.3:
            base = Fraction(2 * j + 1, 2 * K) + r.choice([-1, 1]) * Fraction(1, d * (K << 30))
        if not (0 < base < 1):
            base = Fraction(n, d)
        return base, 'nondyadic'
    bits = r.randint(1, k + 4)
    return Fraction(r.randint(1, (1 << bits) - 1), 1 << bits), 'rand'


def gen_case(r: random.Random, tier: str, force: dict | None = None) -> dict | None:
    force = force or {}
    fam = force.get('family') or r.choice(FAMILIES)
    params = gen_params(r, fam)
    mode = force.get('mode') or r.choice(MODES)
    kmax = 6 if tier == 'quick' else 10
    kk = r.random()
    if kk < 0.08:
        k = None
    elif kk < 0.6:
        k = r.randint(1, 3)
    else:
        k = r.randint(1, kmax)
    if 'k' in force:
        k = force['k']
    case = {'family': fam, 'params': params, 'mode': mode, 'k': k, 'overflow': gen_overflow(r, fam)}
    case['source'] = r.choice(SOURCES)
    case['build'] = r.choice(BUILDS)
    case['route'] = r.choice(['round', 'round', 'round_at', 'op_add', 'op_sub', 'op_mul', 'op_div', 'op_sqrt', 'op_fma'])
    case['negative'] = r.random() < 0.45
    case['want'] = force.get('want') or r.choice(POSITIONS + ['normal', 'normal'])
    case['enc'] = r.choice(['real', 'real_tz', 'float', 'frac', 'pyfloat'])
    case['tz'] = r.randint(1, 5)
    case['aux'] = r.randint(0, 1 << 30)
    case['n_delta'] = r.choice([-3, -1, 0, 0, 1, 2, 3])
    # `exact=True`: the rounding refuses an operand it cannot hold, and is otherwise a rounding like any
    # other -- a representable operand comes back unchanged and costs one draw
    case['exact'] = case['route'] in ('round', 'round_at') and r.random() < 0.2
    return case


# --------------------------------------------------------------------------
# running one case against the real code

def _mk_value(absx: Fraction, negative: bool, enc: str, tz: int):
    """Encodes the operand; returns the Python object handed to fpy2."""
    from fpy2.number import RealFloat, Float
    v = -absx if negative else absx
    d = absx.denominator
    dyadic = d & (d - 1) == 0
    if not dyadic:
        return v, 'frac'
    if enc == 'frac':
        return v, 'frac'
    if enc == 'pyfloat':
        try:
            f = float(v)
        except OverflowError:
            f = None
        if f is not None and Fraction(f) == v:
            return f, 'pyfloat'
        enc = 'real'
    r = RealFloat.from_rational(absx)
    if negative:
        r = RealFloat(s=True, x=r)
    if enc == 'real_tz':
        r = RealFloat(s=r.s, c=r.c << tz, exp=r.exp - tz)
        return r, 'real_tz'
    if enc == 'float':
        return Float(x=r), 'float'
    return r, 'real'


def _fl(q: Fraction):
    from fpy2.number import Float
    return Float.from_rational(q)


def plan_route(case: dict, absx: Fraction, negative: bool, aux: random.Random) -> dict:
    """
    Decides, from the auxiliary stream, how the operand reaches the rounding:
    directly (`round`, `round_at`) or as the exact result of an operation.
    Returns a JSON-friendly plan; `thunk_for(plan, ctx)` builds the call.
    """
    route = case['route']
    v = -absx if negative else absx
    dyadic = absx.denominator & (absx.denominator - 1) == 0
    if route in ('round', 'round_at') or (not dyadic and route != 'op_div'):
        if route == 'round_at':
            return {'route': 'round_at', 'x': str(v), 'enc': case['enc'], 'tz': case['tz'], 'n_arg': case['n_arg'],
                    'exact': bool(case.get('exact'))}
        return {'route': 'round', 'x': str(v), 'enc': case['enc'], 'tz': case['tz'], 'n_arg': None,
                'exact': bool(case.get('exact'))}
    if route in ('op_add', 'op_sub'):
        b = Fraction(aux.randint(-64, 64), 1 << aux.randint(0, 6))
        a = v - b if route == 'op_add' else v + b
        return {'route': route, 'args': [str(a), str(b)], 'n_arg': None}
    if route == 'op_mul':
        n = absx.numerator
        f = 1
        for d in (3, 5, 7, 11):
            if n % d == 0 and aux.random() < 0.7:
                f = d
                break
        a = Fraction(f) * Fraction(2) ** aux.randint(-5, 5)
        return {'route': route, 'args': [str(a), str(v / a)], 'n_arg': None}
    if route == 'op_div':
        if dyadic:
            b = Fraction(aux.choice(['1', '2', '3', '5', '6', '7', '1/2', '3/8']))
        else:
            odd = absx.denominator
            while odd % 2 == 0:
                odd //= 2
            b = Fraction(odd)
        return {'route': route, 'args': [str(v * b), str(b)], 'n_arg': None}
    if route == 'op_fma':
        b = Fraction(aux.randint(1, 9), 1 << aux.randint(0, 3))
        a = Fraction(aux.randint(-9, 9), 1 << aux.randint(0, 3))
        return {'route': route, 'args': [str(a), str(b), str(v - a * b)], 'n_arg': None}
    raise ValueError(route)


def thunk_for(plan: dict, ctx):
    """Builds the zero-argument call performing the rounding under test; returns (thunk, encoding)."""
    from fpy2 import ops
    route = plan['route']
    if route in ('round', 'round_at'):
        v = Fraction(plan['x'])
        val, enc = _mk_value(abs(v), v < 0, plan['enc'], plan['tz'])
        if route == 'round_at':
            n = plan['n_arg']
            if plan.get('exact'):
                return (lambda: ctx.round_at(val, n, exact=True)), enc
            return (lambda: ctx.round_at(val, n)), enc
        if plan.get('exact'):
            return (lambda: ctx.round(val, exact=True)), enc
        return (lambda: ctx.round(val)), enc
    args = [_fl(Fraction(a)) for a in plan['args']]
    fn = {'op_add': ops.add, 'op_sub': ops.sub, 'op_mul': ops.mul, 'op_div': ops.div,
          'op_fma': ops.fma, 'op_sqrt': ops.sqrt}[route]
    return (lambda: fn(*args, ctx=ctx)), 'op'


def _observe(thunk):
    """Runs the rounding; returns a JSON-friendly observation."""
    from fpy2.number import Float
    try:
        y = thunk()
    except SourceFailure:
        return {'exc': 'SourceFailure'}
    except SourceMisuse as e:
        return {'exc': 'SourceMisuse', 'msg': str(e)[:120]}
    except (OverflowError, ValueError) as e:
        return {'exc': type(e).__name__, 'msg': str(e)[:80]}
    if not isinstance(y, Float):
        return {'exc': 'NotAFloat', 'msg': repr(type(y))}
    if y.isnan:
        return {'nan': True, 'overflow': bool(y.overflow), 's': bool(y.s)}
    if y.isinf:
        return {'inf': True, 'overflow': bool(y.overflow), 's': bool(y.s)}
    return {'val': str(y.as_rational()), 's': bool(y.s), 'overflow': bool(y.overflow)}


def _sources(kind: str):
    log = SourceLog()
    obj = ScriptedRandom(log) if kind == 'Random' else ScriptedGenerator(log) if kind == 'Generator' else None
    return log, obj


def _call(log: SourceLog, rng_obj, thunk, script=None, fail_at=None):
    log.calls.clear()
    log.script = script
    log.pos = 0
    log.fail_at = fail_at
    if rng_obj is None:
        with GlobalPatch(log):
            ob = _observe(thunk)
    else:
        ob = _observe(thunk)
    return ob, list(log.calls)


def _threads_phase(case: dict, plan: dict, kreq: int, outcomes: dict, aux: random.Random) -> dict:
    """
    Two or three real caller threads, interleaved at line boundaries of fpy2 by the seeded baton
    scheduler, round the same operand through one shared context and one shared scripted source.
    The source records which thread drew which value; a thread's result must be the outcome the
    sequential sweep recorded for the value that thread drew.
    """
    import os
    from sim.threads import Scheduler
    nthreads = aux.choice([2, 2, 3])
    rounds = aux.randint(2, 4)
    K = (1 << kreq) - 1
    script = [aux.choice([0, K, aux.randrange(K + 1)]) for _ in range(nthreads * rounds + 4)]
    log, rng_obj = _sources(case['source'])
    ctx = build_context(case, rng_obj, SourceLog())
    thunk, _ = thunk_for(plan, ctx)
    sched = Scheduler(nthreads, random.Random(aux.randrange(1 << 60)),
                      trace_prefixes=(os.path.join(core.REPO, 'fpy2') + os.sep,),
                      mean_quantum=aux.choice([1, 2, 4, 9]), max_steps=400_000)
    drawn: dict[int, list] = {i: [] for i in range(nthreads)}
    results: dict[int, list] = {i: [] for i in range(nthreads)}
    log.script = script
    log.pos = 0
    log.fail_at = None
    log.calls.clear()
    orig_next = log.next

    def next_logged(k):
        v = orig_next(k)
        drawn[sched.cur].append((k, v))
        return v
    log.next = next_logged

    def body(sc, i):
        for _ in range(rounds):
            n_before = len(drawn[i])
            ob = _observe(thunk)
            results[i].append((ob, drawn[i][n_before:]))

    violations = []
    try:
        if rng_obj is None:
            with GlobalPatch(log):
                ok = sched.run_threads([body] * nthreads, timeout=60.0)
        else:
            ok = sched.run_threads([body] * nthreads, timeout=60.0)
    finally:
        log.next = orig_next
    if not ok or sched.errors:
        return {'violations': [], 'stats': {'undecided': (sched.errors or ['timeout'])[0][:200]}}
    for i in range(nthreads):
        for ob, mine in results[i]:
            if len(mine) != 1 or mine[0][0] != kreq:
                violations.append(('threads-draw-count', {'thread': i, 'draws_by_this_thread': mine, 'expected': 1}))
                break
            want = outcomes.get(mine[0][1])
            if ob != want:
                violations.append(('threads-result-not-explained-by-own-draw',
                                   {'thread': i, 'drew': mine[0][1], 'got': ob, 'sequential_outcome_for_that_draw': want}))
                break
    return {'violations': violations, 'stats': {'threads': nthreads, 'roundings': nthreads * rounds, 'steps': sched.steps,
                                                'handoffs': sched.switches}}


def run_case(case: dict) -> dict:
    """
    Executes one case against the real code, sweeping the outcome space of the
    random source.  Returns {'violations': [...], 'info': {...}}.
    Everything is a function of `case` (which includes its auxiliary seed).
    """
    aux = random.Random(case['aux'])
    src = case['source']
    log, rng_obj = _sources(src)
    info: dict = {'skipped': None}

    def skip(why):
        info['skipped'] = why
        return {'violations': [], 'info': info}

    decoy_log = SourceLog()
    try:
        ctx = build_context(case, rng_obj, decoy_log)
    except (ValueError, TypeError) as e:
        return skip(f'context rejected: {type(e).__name__}')
    grid = grid_of(case, ctx)
    if grid is None:
        return skip('format has no non-zero values')
    negative = case['negative']
    k = case['k']
    k_gen = k if k is not None else aux.randint(1, 6)
    if 'operand' in case:
        # replay / minimised form: the operand is spelled out
        m, qe, position = case['operand']['m'], case['operand']['qe'], case['operand']['position']
        t, tclass = Fraction(case['operand']['t']), case['operand']['tclass']
        negative = case['operand']['negative']
    else:
        if (grid['maxneg'] if negative else grid['maxpos']) == 0 and case['want'] not in ('top_gap',):
            negative = False
        pos = gen_operand(aux, grid, k_gen, negative, case['want'])
        if pos is None:
            pos = gen_operand(aux, grid, k_gen, negative, 'normal') or gen_operand(aux, grid, k_gen, negative, 'zero_gap')
        if pos is None:
            return skip('no operand position in this format')
        m, qe, position = pos
        route0 = case['route']
        allow_nd = (k is not None) and route0 in ('round', 'round_at', 'op_div')
        t, tclass = gen_offset(aux, k_gen, allow_nd)
        if k is None and t.denominator > (1 << 9):
            t, tclass = Fraction(aux.randint(1, 255), 256), 'rand'
        if case.get('exact') and route0 in ('round', 'round_at') and aux.random() < 0.8:
            t, tclass = Fraction(0), 'zero'
        if m == 0 and t == 0:
            t, tclass = Fraction(1, 2), 'grid_half'
        if route0 == 'op_sqrt':
            negative = False
    q = Fraction(2) ** qe
    route = case['route']
    absx_q = (m + t) * q
    n_arg = (qe - 1) + case['n_delta'] if route == 'round_at' else None
    case = dict(case, n_arg=n_arg)
    case['operand'] = {'m': m, 'qe': qe, 'position': position, 't': str(t), 'tclass': tclass, 'negative': negative}

    if route == 'op_sqrt':
        if k is None:
            return skip('sqrt with k=None needs exact arithmetic')
        lo2, hi2 = (m * q) ** 2, ((m + 1) * q) ** 2
        target = absx_q ** 2
        sh = 0
        while True:
            sc = Fraction(2) ** (-(2 * qe) + 2 * k_gen + 8 + sh)
            ts = target * sc
            a = Fraction(ts.numerator // ts.denominator) / sc
            if t == 0:
                a = lo2
                break
            if lo2 < a < hi2:
                break
            sh += 4
            if sh > 64:
                return skip('no radicand')
        if a <= 0:
            return skip('no radicand')
        operand = orc.Sqrt(a)
        plan = {'route': 'op_sqrt', 'args': [str(a)], 'n_arg': None}
    else:
        operand = orc.Rational(absx_q)
        plan = plan_route(case, absx_q, negative, aux)
    thunk, enc = thunk_for(plan, ctx)
    n_arg = plan['n_arg']
    route_used = plan['route']

    info.update({'position': position, 'tclass': tclass, 'enc': enc, 'route': route_used,
                 'operand': operand.describe(), 'negative': negative, 'plan': plan})
    violations = []

    def vio(cls, detail):
        sig = {'cls': cls, 'family': case['family'], 'mode': case['mode'], 'position': position,
               'route': route_used, 'build': case.get('build', 'ctor')}
        violations.append({'property': PROP, 'cls': cls, 'signature': sig, 'detail': detail,
                           'case': case, 'info': {kk: vv for kk, vv in info.items()}})

    def done():
        return {'violations': violations, 'info': info}

    # first call: learn how many bits are requested
    ob0, calls0 = _call(log, rng_obj, thunk, [0])
    if ob0.get('exc') == 'SourceMisuse':
        vio('source-misused', {'got': ob0})
        return done()
    if ob0.get('exc') == 'ValueError' and k is None and enc in ('frac', 'op'):
        return skip('k=None needs exact arithmetic for this operand')
    if plan.get('exact'):
        route_used = route_used + '_exact'
        info['route'] = route_used
        if ob0.get('exc') == 'ValueError':
            # refused as inexact: right for an operand off the grid (nothing was rounded: at most the one
            # draw), wrong for a representable one
            e0 = orc.expectation(grid, operand, negative, k if k is not None else 1, case['mode'], n_arg)
            if e0['beyond'] or e0['top_gap']:
                return skip('exact rounding at or beyond the largest value (C01 territory)')
            if e0['representable']:
                vio('representable-refused-as-inexact', {'got': ob0, 'operand': operand.describe()})
            elif len(calls0) > 1:
                vio('draw-count', {'draws': calls0, 'expected': 'at most 1', 'first': ob0})
            info['exact_refused'] = True
            return done()
    if len(calls0) != 1:
        vio('draw-count', {'draws': calls0, 'expected': 1, 'first': ob0})
        return done()
    kreq = calls0[0][0]
    if k is not None and kreq != k:
        vio('draw-width', {'requested': kreq, 'k': k})
        return done()
    if kreq > 12:
        return skip(f'{kreq} bits requested: outcome space too large to sweep')
    exp = orc.expectation(grid, operand, negative, kreq, case['mode'], n_arg)
    info['k_eff'] = kreq
    info['top_gap'] = exp['top_gap']
    if exp['beyond']:
        return skip('operand beyond the largest value (C01 territory)')
    if k is None and not exp['exact_at_k']:
        vio('none-not-all-bits', {'requested': kreq, 'operand': operand.describe()})
    lo, hi = exp['lo'], exp['hi']
    sgn = -1 if negative else 1
    fixed_like = case['family'] in ('MPBFixed', 'Fixed', 'SMFixed')
    mx = grid['maxneg'] if negative else grid['maxpos']
    # MPBFixed-like formats return the largest value unflagged under SATURATE: when the lower
    # neighbour *is* the largest value, both outcomes look alike and the count cannot be observed
    sat_fixed = fixed_like and case['overflow'] == 'SATURATE'
    unobservable = exp['top_gap'] and sat_fixed and lo == mx
    away = 0
    outcomes = {}
    complete = True
    for rv in range(1 << kreq):
        ob, calls = _call(log, rng_obj, thunk, [rv])
        if len(calls) != 1 or calls[0][0] != kreq:
            vio('draw-count', {'draws': calls, 'expected': 1, 'r': rv})
            complete = False
            break
        outcomes[rv] = ob
        val = Fraction(ob['val']) if 'val' in ob else None
        if exp['representable']:
            if val != sgn * lo:
                vio('representable-changed', {'r': rv, 'got': ob, 'x': str(sgn * lo)})
                complete = False
                break
            continue
        if exp['top_gap']:
            is_lo = val == sgn * lo and not ob['overflow']
            is_away = ob.get('exc') in ('OverflowError', 'ValueError') or ob.get('inf') or ob.get('nan') \
                or ob.get('overflow') or (sat_fixed and lo != mx and val == sgn * mx)
            if unobservable:
                if not (val == sgn * lo or is_away):
                    vio('not-a-neighbour', {'r': rv, 'got': ob, 'lo': str(sgn * lo), 'hi': 'out of range'})
                    complete = False
                    break
            elif is_lo:
                pass
            elif is_away:
                away += 1
            else:
                vio('not-a-neighbour', {'r': rv, 'got': ob, 'lo': str(sgn * lo), 'hi': 'out of range'})
                complete = False
                break
            continue
        if val is None:
            vio('not-a-neighbour', {'r': rv, 'got': ob, 'lo': str(sgn * lo), 'hi': str(sgn * hi)})
            complete = False
            break
        if val == sgn * lo:
            pass
        elif val == sgn * hi:
            away += 1
        else:
            vio('not-a-neighbour', {'r': rv, 'got': ob, 'lo': str(sgn * lo), 'hi': str(sgn * hi)})
            complete = False
            break
    info['away'] = away
    info['expected_away'] = exp['away_count']
    info['representable'] = exp['representable']
    info['carry'] = (not exp['representable']) and exp['away_count'] == (1 << kreq)
    info['unobservable'] = bool(unobservable)
    if not complete:
        return done()
    if not exp['representable'] and not unobservable and away != exp['away_count']:
        vio('count-mismatch', {'away': away, 'expected': exp['away_count'], 'of': 1 << kreq,
                               'lo': str(sgn * lo), 'hi': str(sgn * hi), 'operand': operand.describe(),
                               'top_gap': exp['top_gap'], 'k': kreq})
    # determinism in the draw: same (operand, value) -> same result, also through
    # the other two kinds of source
    picks = sorted({0, (1 << kreq) - 1, aux.randrange(1 << kreq)})
    for rv in picks:
        ob, _ = _call(log, rng_obj, thunk, [rv])
        if ob != outcomes[rv]:
            vio('not-a-function-of-draw', {'r': rv, 'first': outcomes[rv], 'second': ob})
            break
    for other in SOURCES:
        if other == src:
            continue
        log2, rng2 = _sources(other)
        ctx2 = build_context(case, rng2)
        th2, _ = thunk_for(plan, ctx2)
        for rv in picks:
            ob, calls = _call(log2, rng2, th2, [rv])
            if ob != outcomes[rv] or len(calls) != 1 or calls[0][0] != kreq:
                vio('source-kind-dependence', {'r': rv, 'source': other, 'first': outcomes[rv], 'second': ob,
                                               'draws': calls})
                break
    if decoy_log.calls:
        vio('replaced-source-still-used', {'draws': list(decoy_log.calls)[:4], 'build': case.get('build')})
    # a context holding its own source must not touch the process-global one
    if rng_obj is not None:
        glog = SourceLog()
        with GlobalPatch(glog):
            _call(log, rng_obj, thunk, [0])
        if glog.calls:
            vio('global-source-used', {'draws': list(glog.calls)})
    # schedule dimension: several caller threads share the context and its source; every
    # result must be explained by the value *its own* thread drew
    if not exp['representable'] and kreq <= 6 and aux.random() < case.get('thread_rate', 0.12):
        tv = _threads_phase(case, plan, kreq, outcomes, aux)
        info['thread_phase'] = tv['stats']
        for cls, detail in tv['violations']:
            vio(cls, detail)
    # fault: the source raises -> the rounding raises, nothing is returned
    ob, calls = _call(log, rng_obj, thunk, [0], fail_at=0)
    if ob.get('exc') != 'SourceFailure':
        vio('source-failure-swallowed', {'got': ob, 'draws': calls})
    info['fault_rng_fail'] = 1
    # after the fault the context still works and still agrees
    ob, calls = _call(log, rng_obj, thunk, [picks[-1]])
    if ob != outcomes[picks[-1]]:
        vio('state-after-source-failure', {'r': picks[-1], 'first': outcomes[picks[-1]], 'second': ob})
    return done()


# --------------------------------------------------------------------------
# program route: whole FPy functions evaluated under a stochastic context

_PROGS = None


def progs():
    global _PROGS
    if _PROGS is None:
        import importlib
        _PROGS = importlib.import_module('workloads.c17_progs')
    return _PROGS


def gen_prog_case(r: random.Random, tier: str) -> dict:
    # formats wide enough that no intermediate of the programs becomes zero or overflows
    # (a zero or non-finite operand consumes no draw, and the count below assumes none occurs)
    fam = r.choice(['IEEE', 'IEEE', 'MPFloat', 'MPSFloat', 'MPFixed', 'EFloat'])
    params = gen_params(r, fam)
    if fam == 'IEEE':
        params = {'es': r.randint(4, 5), 'nbits': r.randint(9, 16)}
    if fam == 'EFloat':
        params = {'es': 5, 'nbits': r.randint(9, 14), 'enable_inf': r.random() < 0.5,
                  'nan_kind': r.choice(['IEEE_754', 'MAX_VAL', 'NEG_ZERO', 'NONE']), 'eoffset': r.randint(-2, 2)}
    if fam == 'MPSFloat':
        params = {'p': r.randint(2, 8), 'emin': r.randint(-14, -9)}
    if fam == 'MPFixed':
        params = {'nmin': r.randint(-12, -8)}
    return {'type': 'prog', 'family': fam, 'params': params, 'mode': r.choice(MODES), 'k': r.randint(1, 6),
            'overflow': gen_overflow(r, fam), 'source': r.choice(SOURCES), 'build': r.choice(BUILDS),
            'prog': r.choice(sorted(progs().PROGS)), 'x': str(Fraction(r.randint(3, 40), 8)), 'y': str(Fraction(r.randint(9, 40), 8)),
            'script_seed': r.randrange(1 << 30)}


def run_prog_case(case: dict) -> dict:
    """
    A whole function under a stochastic context: the interpreter must route every rounded
    operation through the context's source -- one k-bit draw each -- and nothing else.
    """
    import fpy2 as fp
    info: dict = {'skipped': None, 'route': 'program:' + case['prog']}
    violations = []

    def skip(why):
        info['skipped'] = why
        return {'violations': [], 'info': info}

    def vio(cls, detail):
        sig = {'cls': cls, 'family': case['family'], 'mode': case['mode'], 'position': 'program', 'route': info['route'],
               'build': case.get('build', 'ctor')}
        violations.append({'property': PROP, 'cls': cls, 'signature': sig, 'detail': detail, 'case': case, 'info': dict(info)})

    maker = getattr(progs(), 'MAKERS', {}).get(case['prog'])
    made: dict = {}

    def call(cx):
        # a factory-made program carries the context in a `with` block of its own and is made once per
        # context object (so that its second evaluation is not its first: nothing may be decided at compile time)
        if maker is not None:
            if id(cx) not in made:
                made[id(cx)] = (maker(cx), cx)
            return made[id(cx)][0](x, y, ctx=fp.FP64)
        return fn(x, y, ctx=cx)

    fn = getattr(progs(), case['prog'], None)
    nops = progs().PROGS[case['prog']]
    x, y = Fraction(case['x']), Fraction(case['y'])
    k = case['k']

    def det(mode):
        c = _ctor_context(dict(case, k=0, mode=mode), None)
        return call(c)

    try:
        lo = det('RTZ')
        hi = det('RAZ')
    except Exception as e:
        return skip(f'format too small for this program: {type(e).__name__}')
    for v in (lo, hi):
        if not isinstance(v, fp.Float) or v.is_nar() or v.is_zero():
            return skip('format too small for this program')
    rtz_q, raz_q = lo.as_rational(), hi.as_rational()
    lo_q, hi_q = sorted((rtz_q, raz_q))     # (a program may end on a negative value)
    log, rng_obj = _sources(case['source'])
    decoy_log = SourceLog()
    try:
        ctx = build_context(case, rng_obj, decoy_log)
    except (ValueError, TypeError) as e:
        return skip(f'context rejected: {type(e).__name__}')

    def ev(script):
        log.calls.clear()
        log.script = script
        log.pos = 0
        log.fail_at = None
        try:
            if rng_obj is None:
                with GlobalPatch(log):
                    out = call(ctx)
            else:
                out = call(ctx)
        except Exception as e:
            return {'exc': type(e).__name__}, list(log.calls)
        return out, list(log.calls)

    sr = random.Random(case['script_seed'])
    K = (1 << k) - 1
    scripts = {'zeros': [0], 'ones': [K], 'rand1': [sr.randrange(K + 1) for _ in range(16)],
               'rand2': [sr.randrange(K + 1) for _ in range(16)]}
    info['draws_swept'] = 0
    for name, script in scripts.items():
        out, calls = ev(script)
        info['draws_swept'] += len(calls)
        if isinstance(out, dict):
            vio('program-raised', {'script': name, 'got': out})
            break
        if len(calls) != nops:
            vio('program-draw-count', {'script': name, 'draws': len(calls), 'rounded_operations': nops})
            break
        if any(kk != k for kk, _ in calls):
            vio('draw-width', {'script': name, 'requested': sorted({kk for kk, _ in calls}), 'k': k})
            break
        if out.is_nar():
            vio('program-result-not-finite', {'script': name})
            break
        q = out.as_rational()
        if not (lo_q <= q <= hi_q):
            vio('program-result-outside-directed-bounds', {'script': name, 'got': str(q), 'rtz': str(lo_q), 'raz': str(hi_q)})
            break
        out2, calls2 = ev(script)
        if isinstance(out2, dict) or out2.as_rational() != q or calls2 != calls:
            vio('not-a-function-of-draw', {'script': name})
            break
        if name == 'zeros' and case['mode'] == 'RTZ' and q != rtz_q:
            vio('program-zeros-script-is-not-rtz', {'got': str(q), 'rtz': str(rtz_q)})
            break
        if name == 'ones' and case['mode'] == 'RAZ' and q != raz_q:
            vio('program-ones-script-is-not-raz', {'got': str(q), 'raz': str(raz_q)})
            break
    if decoy_log.calls:
        vio('replaced-source-still-used', {'draws': list(decoy_log.calls)[:4], 'build': case.get('build')})
    info['nops'] = nops
    return {'violations': violations, 'info': info}


# --------------------------------------------------------------------------
# one simulated run = one seed = one swarm configuration and its cases

def run(seed: int, tier: str) -> dict:
    r = random.Random(seed)
    st = core.Stats()
    violations = []
    # swarm: restrict this run to a subset of families / modes / positions
    fams = r.sample(FAMILIES, r.randint(1, 4))
    modes = r.sample(MODES, r.randint(1, 4))
    wants = r.sample(POSITIONS, r.randint(1, 4))
    ncases = r.randint(6, 14)
    for pi in range(2):
        pcase = gen_prog_case(r, tier)
        pout = run_prog_case(pcase)
        st.count('program_cases', 'skipped' if pout['info'].get('skipped') else 'decided')
        if not pout['info'].get('skipped'):
            st.count('program_cases', pcase['prog'])
            st.count('draws_swept', 'total', pout['info'].get('draws_swept', 0))
            st.add('distinct', f"prog|{pcase['family']}|{pcase['mode']}|{pcase['k']}|{pcase['prog']}|{pcase['source']}|{pcase['build']}")
        for v in pout['violations']:
            v['seed'] = seed
            violations.append(v)
    for ci in range(ncases):
        case = gen_case(r, tier, {'family': r.choice(fams), 'mode': r.choice(modes), 'want': r.choice(wants)})
        out = run_case(case)
        info = out['info']
        st.count('cases', 'total')
        if info.get('skipped'):
            st.count('skipped', info['skipped'][:40])
            continue
        st.count('cases', 'decided')
        st.count('family', case['family'])
        st.count('mode', case['mode'])
        st.count('position', info['position'])
        st.count('route', info['route'])
        st.count('enc', info['enc'])
        st.count('source', case['source'])
        st.count('build', case.get('build', 'ctor'))
        st.count('k', str(case['k']))
        st.count('draws_swept', 'total', 1 << info.get('k_eff', 0))
        if info.get('fault_rng_fail'):
            st.count('faults', 'rng-fail', 1)
        tp = info.get('thread_phase')
        if tp:
            if 'undecided' in tp:
                st.count('thread_phase', 'undecided')
            else:
                st.count('thread_phase', 'cases')
                st.count('thread_phase', 'roundings', tp['roundings'])
                st.count('thread_phase', 'steps', tp['steps'])
                st.count('thread_phase', 'handoffs', tp['handoffs'])
        for probe in ('carry', 'top_gap', 'representable', 'unobservable'):
            if info.get(probe):
                st.count('probes', probe)
        if info.get('tclass'):
            st.count('offset', info['tclass'])
        st.add('distinct', '|'.join(str(x) for x in (
            case['family'], case['mode'], info.get('k_eff'), info['position'], info['tclass'], info['route'],
            info['enc'], 'neg' if info['negative'] else 'pos')))
        if ci == 0 and r.random() < 0.02:
            st.samples.append({'seed': seed, 'case': out['info'] | {'family': case['family'], 'mode': case['mode'],
                                                                    'k': case['k'], 'overflow': case['overflow']}})
        for v in out['violations']:
            v['seed'] = seed
            violations.append(v)
    return {'stats': st.dump(), 'violations': violations}


def same_failure(case: dict, cls: str) -> bool:
    out = run_prog_case(case) if case.get('type') == 'prog' else run_case(case)
    return any(v['cls'] == cls for v in out['violations'])


def minimise(v: dict) -> dict:
    """Greedy simplification of a failing case; keeps a step only if the same class recurs."""
    case = dict(v['case'])
    cls = v['cls']
    if not same_failure(case, cls):
        v['minimised'] = False
        return v
    steps = [('route', 'round'), ('enc', 'real'), ('source', 'Random'), ('n_delta', 0), ('build', 'ctor')]
    if case.get('type') == 'prog':
        steps = [('source', 'Random'), ('build', 'ctor')]
    for key, val in steps:
        if case.get(key) != val:
            c2 = dict(case, **{key: val})
            if same_failure(c2, cls):
                case = c2
    if case['k'] is not None:
        for k2 in range(1, case['k']):
            c2 = dict(case, k=k2)
            if same_failure(c2, cls):
                case = c2
                break
    out = run_prog_case(case) if case.get('type') == 'prog' else run_case(case)
    vv = [x for x in out['violations'] if x['cls'] == cls][0]
    vv['seed'] = v.get('seed', 0)
    vv['minimised'] = True
    return vv


def replay(path: str) -> int:
    import json
    with open(path) as f:
        v = json.load(f)
    out = run_prog_case(v['case']) if v['case'].get('type') == 'prog' else run_case(v['case'])
    hits = [x for x in out['violations'] if x['cls'] == v['cls']]
    if hits:
        print(f"VIOLATION property={PROP} replay={path}")
        print(f"  class={hits[0]['cls']} detail={json.dumps(hits[0]['detail'], default=str)[:500]}")
        return core.EXIT_VIOLATION
    print(f'replay of {path}: no violation (class {v["cls"]} did not recur)')
    return core.EXIT_OK


def main(tier: str) -> int:
    budget = {'quick': 45.0, 'thorough': 900.0}[tier]
    budget = float(__import__('os').environ.get('VERIF_BUDGET_S', budget))
    res = core.run_batch(PROP, 'checks.c17', 'run', tier=tier, budget_s=budget, max_runs=None, chunk=8)
    st: core.Stats = res['stats']
    known = core.load_known(PROP)
    code = core.report(PROP, res['violations'], known, res['harness_errors'], minimise=minimise)
    c = st.counters
    decided = c.get('cases', {}).get('decided', 0)
    wall = res['wall_s']
    coverage = {
        'evaluations': decided,
        'distinct_nontrivial': len(st.sets.get('distinct', ())),
        'rule': ('One evaluation = one (context family+parameters, base mode, k, operand, encoding, route, kind of source) '
                 'case whose whole outcome space (all 2^k scripted draws) was swept against the Fraction oracle; skipped '
                 'cases (context rejected, unsupported k=None combination) are not counted. Distinct = distinct '
                 '(family, mode, effective k, position class, offset class, route, encoding, sign) tuples.'),
        'samples': st.samples[:4] or [{'note': 'no sample drawn in this batch'}],
        'simulated_runs': res['runs'],
        'runs_per_hour': int(res['runs'] / wall * 3600) if wall > 0 else 0,
        'seeds': {'VERIF_SEED': res['base_seed'], 'first_run_seeds': res['seeds'][:8]},
        'simulated_time': {'unit': 'scripted draws delivered to the library', 'total': c.get('draws_swept', {}).get('total', 0)},
        'faults_fired': dict(c.get('faults', {})),
        'probes': dict(c.get('probes', {})),
        'by_family': dict(c.get('family', {})),
        'by_mode': dict(c.get('mode', {})),
        'by_position': dict(c.get('position', {})),
        'by_route': dict(c.get('route', {})),
        'by_encoding': dict(c.get('enc', {})),
        'by_source': dict(c.get('source', {})),
        'by_build_route': dict(c.get('build', {})),
        'by_k': dict(c.get('k', {})),
        'by_offset': dict(c.get('offset', {})),
        'program_route_cases': dict(c.get('program_cases', {})),
        'shared_source_thread_phase': dict(c.get('thread_phase', {})),
        'skipped': dict(c.get('skipped', {})),
        'components': {
            'real': ['fpy2.number.number.reals (RealFloat.round/_round_at_stochastic)', 'all *Context.round/round_at/round_params',
                     'fpy2.ops add/sub/mul/div/sqrt/fma', 'engines (MPFR via gmpy2, real engine)'],
            'stub': ['random source only: ScriptedRandom(random.Random), ScriptedGenerator(.integers), patched random.getrandbits'],
        },
        'workers': res['workers'],
        'exhaustive': False,
    }
    core.write_evidence(PROP, tier, 'exploration', coverage, wall_s=wall,
                        violations=len(res['violations']),
                        assumptions=['EFloat format parameters (pmax, emin, maxval) are read from the context object',
                                     'in the top gap of a bounded format a draw counts as rounding away when the result carries the overflow flag, is inf/nan, or the call raises OverflowError/ValueError',
                                     'MPBFixed-like formats under SATURATE do not flag overflow, so the count in their top gap is unobservable and only the neighbour claim is checked there',
                                     'the sweep is exhaustive per case (all 2^k draws); cases are sampled'])
    print(f'{PROP} {tier}: runs={res["runs"]} cases={decided} distinct={coverage["distinct_nontrivial"]} '
          f'violations={len(res["violations"])} wall={wall:.1f}s')
    return code
