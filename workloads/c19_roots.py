"""
Root programs for C19.  Within one program no two statements are structurally
equivalent (distinct names and constants), and each is rich in sites: loops
(sequential, nested, inside `if`), rounding blocks under float, fixed and REAL
contexts (some refused), calls to inlinable and non-inlinable helpers, with
plain statements before, between and after the sites.
"""
import fpy2 as fp


@fp.fpy
def leaf(x: fp.Real) -> fp.Real:
    return x * x + 11


@fp.fpy
def mid(x: fp.Real) -> fp.Real:
    u = leaf(x) + 12
    return u * 13


@fp.fpy
def two_ret(x: fp.Real) -> fp.Real:
    if x > 14:
        return x + 15
    return x - 16


@fp.fpy
def loops_a(xs: list[fp.Real], ys: list[fp.Real], n: fp.Real) -> fp.Real:
    a = 1.0
    for x in xs:
        a = a + x
    b = 2.0
    for y in ys:
        b = b * y
        for z in xs:
            b = b + z * 3
    i = 4.0
    while i < n:
        i = i + 5
    c = a + b + i
    return c


@fp.fpy
def loops_b(xs: list[fp.Real], n: fp.Real, m: fp.Real) -> fp.Real:
    s = 21.0
    if n > 22:
        for x in xs:
            s = s + x * 23
        s = s - 24
    else:
        k = 25.0
        while k < m:
            k = k + 26
            j = 27.0
            while j < n:
                j = j + 28
        s = s + k
    t = s * 29
    for w in xs:
        t = t - w
    return t + 30


@fp.fpy
def odd_trip(n: fp.Real) -> fp.Real:
    a = 31.0
    for _i in range(3):
        a = a + 32
    b = 33.0
    for _j in range(4):
        b = b + 34
    return a * b + n


@fp.fpy
def nest_trip(n: fp.Real) -> fp.Real:
    a = 35.0
    for _i in range(3):
        a = a + 36
        for _j in range(4):
            a = a * 37
    for _k in range(2):
        a = a - 38
        for _l in range(3):
            a = a + 39
            for _m in range(4):
                a = a - 40
    return a + n


@fp.fpy
def calls_a(x: fp.Real, y: fp.Real) -> fp.Real:
    p = x + 41
    q = leaf(p) + 42
    r = mid(y) * 43
    if q > r:
        q = leaf(q) - 44
    s = two_ret(q) + 45
    return leaf(r) + s


@fp.fpy
def calls_b(x: fp.Real, n: fp.Real) -> fp.Real:
    i = 51.0
    while leaf(i) < n:
        i = i + 52
    acc = 53.0
    for t in [x, n]:
        acc = acc + mid(t) * 54
    u = leaf(acc) + leaf(i)
    return u - 55


@fp.fpy
def static_nest(c: fp.Real, ys: list[fp.Real]) -> fp.Real:
    # loops of statically known length whose bodies define no new variable and hold sites two
    # blocks deep: what a split with a remainder duplicates
    acc = 141.0
    y = 142.0
    for i in range(7):
        if i > c:
            acc = acc + leaf(i) * 143
            for y in ys:
                acc = acc + y * i
    for k in range(5):
        acc = acc + k * 144
        if k > c:
            acc = acc - mid(k)
    return acc


@fp.fpy
def calls_c(x: fp.Real, y: fp.Real) -> fp.Real:
    a = x + 131
    if leaf(a) > 132:
        a = a + 133
    for e in [leaf(x), mid(y)]:
        a = a + e * 134
    if mid(a) > 135:
        a = leaf(a) - 136
    else:
        a = a + 137
        if leaf(y) > a:
            a = a * 138
    b = a - 139
    return b


@fp.fpy(ctx=fp.REAL)
def rounds_a(x: fp.Real, y: fp.Real, z: fp.Real) -> fp.Real:
    a = x + 61
    with fp.FP16:
        p = fp.round(x)
    b = y * 62
    with fp.REAL:
        e = fp.round(z)
    with fp.FP32:
        q = fp.round(y)
        r = fp.round(z)
    c = a + b
    with fp.MPFixedContext(-8):
        f = fp.round(c)
    return p + q + r + e + f


@fp.fpy(ctx=fp.REAL)
def rounds_b(x: fp.Real, y: fp.Real) -> fp.Real:
    g = x - 71
    if g > 72:
        with fp.FP16:
            h = fp.round(g)
        g = h + 73
    else:
        with fp.FixedContext(True, -16, 32):
            k = fp.round(y)
        g = k + 74
    with fp.FixedContext(True, -8, 32):
        m = fp.round(g)
    with fp.MPFixedContext(-4, enable_nan=True, enable_inf=True):
        n = fp.round(y)
    return m + n


@fp.fpy(ctx=fp.REAL)
def mixed(xs: list[fp.Real], x: fp.Real) -> fp.Real:
    v = x + 81
    for e in xs:
        with fp.FP16:
            v2 = fp.round(e)
        v = v + v2 * 82
    with fp.FP32:
        w = fp.round(v)
    o = leaf(w) + 83
    j = 84.0
    while j < x:
        j = j + 85
        with fp.FP16:
            j2 = fp.round(j)
        o = o + j2
    return o


@fp.fpy(ctx=fp.FP64)
def _ir_a(x: fp.Real, y: fp.Real, z: fp.Real) -> fp.Real:
    with fp.REAL:
        t = (x * x) + (y * y)
    u = t * 121
    with fp.REAL:
        v = abs(z * z) - x
    if u > 122:
        with fp.REAL:
            w = (u * y) + (v * z)
        u = w + 123
    return u + v


def _pin(func, n):
    from fpy2.strategies import monomorphize
    from fpy2.types import RealType
    return monomorphize(func, fp.FP64, [RealType(fp.FP32)] * n)


ir_a = _pin(_ir_a, 3)     # pinned formats: what `insert_round` needs to find its sites


@fp.fpy
def stores_a(xs: list[fp.Real], i: fp.Real, x: fp.Real) -> fp.Real:
    # indexed assignments with sites in the subscript and in the stored value
    xs[leaf(i)] = mid(x)
    a = x + 141
    for k in range(2):
        xs[k] = leaf(a) + mid(xs[leaf(k)])
    xs[mid(i) - 142] = a
    if leaf(a) > 143:
        xs[0] = leaf(mid(x))
    return xs[0] + a


@fp.fpy(ctx=fp.FP64)
def _ir_b(ys: list[fp.Real], i: fp.Real, x: fp.Real, y: fp.Real) -> fp.Real:
    with fp.REAL:
        ys[i * 3] = x * x
        t = ys[i * 2] + (x * y)
    u = t * 151
    with fp.REAL:
        ys[i * x] = (y * y) - abs(x * i)
    return u + ys[0]


def _pin_b():
    from fpy2.strategies import monomorphize
    from fpy2.types import RealType, ListType
    r = RealType(fp.FP32)
    return monomorphize(_ir_b, fp.FP64, [ListType(r), r, r, r])


try:
    ir_b = _pin_b()
except Exception:      # the pinning API differs: the root is simply absent
    ir_b = None


ROOTS = ['loops_a', 'loops_b', 'odd_trip', 'nest_trip', 'static_nest', 'calls_a', 'calls_b', 'calls_c', 'rounds_a', 'rounds_b', 'mixed',
         'stores_a']
if ir_b is not None:
    ROOTS.append('ir_b')


# ---------------------------------------------------------------------------
# user rewrite rules (module-level objects, reused across histories and roots)

@fp.pattern
def _fma_l(a, b, c):
    a * b + c


@fp.pattern
def _fma_r(a, b, c):
    fp.fma(a, b, c)


@fp.pattern
def _sum_l(xs):
    y = 0
    for x in xs:
        y += x


@fp.pattern
def _sum_r(xs):
    y = sum(xs)


@fp.pattern
def _dbl_l(a):
    a + a


@fp.pattern
def _dbl_r(a):
    2 * a


@fp.fpy
def rw_a(x: fp.Real, y: fp.Real, zs: list[fp.Real]) -> fp.Real:
    t = x * y + 91
    acc = 0
    for z in zs:
        acc += z
    u = (t + t) * 92
    for w in zs:
        u = u + w * y + 93
    if u > 94:
        v = u * x + acc
        u = (v + v) - 95
    tot = 0
    for q in zs:
        tot += q
    return u * tot + 96


@fp.pattern
def _peel_l(t, e):
    while t > 0:
        t = e


@fp.pattern
def _peel_r(t, e):
    t = e
    while t > 0:
        t = e


@fp.fpy
def rw_b(x: fp.Real, y: fp.Real) -> fp.Real:
    a = x + 101
    while a > 0:
        a = a - y
    b = a * 102
    if b > 103:
        c = b + 104
        while c > 0:
            c = c / 2 - 105
        b = c * y + 107
    r = b + 106
    return r


def rules():
    from fpy2.rewrite import Rewrite
    return {
        'fma': (_fma_l, _fma_r),
        'sum': (_sum_l, _sum_r),
        'dbl': (_dbl_l, _dbl_r),
        'peel': (_peel_l, _peel_r),
    }


@fp.fpy
def rw_c(x: fp.Real, y: fp.Real, z: fp.Real) -> fp.Real:
    # matches nested inside the bindings of other matches
    p = (x * y + 201) * z + 202
    q = (x + x) + (x + x)
    if (p * q + 203) * x + 204 > 205:
        p = (q * q + p) * ((y + y) * z + 206) + 207
    return p + q


@fp.fpy
def long_block(xs: list[fp.Real], x: fp.Real, n: fp.Real) -> fp.Real:
    # a block of more than ten statements with sites at one-digit and two-digit positions, both arms of an `if`
    a = x + 301
    for e in xs:
        a = a + e * 302
    b = leaf(a) + 303
    c = a * 304
    d = b - 305
    w = 306.0
    while w < n:
        w = w + 307
    g = c + d
    h = g * 308
    k = h - 309
    m = k + 310
    for e2 in xs:
        m = m + e2 * 311
    p = mid(m) + 312
    while w < n:
        w = w + 313
    for _q in range(4):
        p = p + 314
    if p > 315:
        for _r in range(2):
            p = p + leaf(x) * 316
    else:
        for _s in range(2):
            p = p - mid(x) * 317
    r = leaf(p) - 318
    return r + w


@fp.fpy(ctx=fp.REAL)
def rounds_c(x: fp.Real, y: fp.Real) -> fp.Real:
    # the same context written out at several places (what `lift_context` shares), next to named ones
    a = x + 321
    with fp.IEEEContext(5, 16):
        p = fp.round(a)
    with fp.IEEEContext(5, 16):
        q = fp.round(y)
    b = p + q
    if b > 322:
        with fp.MPFixedContext(-8):
            r = fp.round(b)
        b = r + 323
    else:
        with fp.IEEEContext(5, 16):
            s = fp.round(b)
        with fp.FP32:
            t = fp.round(s)
        b = t + 324
    with fp.MPFixedContext(-8):
        u = fp.round(b)
    return u + a


@fp.fpy
def exprs_a(x: fp.Real, y: fp.Real) -> fp.Real:
    # calls inside the arms and the condition of conditional expressions
    a = (leaf(x) if x > 331 else mid(y)) + 332
    b = a * 333
    c = leaf(b) if mid(b) > 334 else b
    d = (b if c > 335 else leaf(c) * 336) - 337
    return a + c + d


ROOTS.append('exprs_a')
ROOTS.append('rounds_c')
ROOTS.append('long_block')
ROOTS.append('rw_a')
ROOTS.append('rw_c')
ROOTS.append('rw_b')
ROOTS.append('ir_a')


@fp.fpy
def nest_calls(x: fp.Real, n: fp.Real) -> fp.Real:
    # two nests three blocks deep, each behind a statement whose call `inline` expands (a pure insertion
    # in the outermost block): statements two and three blocks down have ancestors that shift while
    # nothing changes next to them
    a = leaf(x) + 301
    i = 302.0
    while i < n:
        if a > 303:
            j = 304.0
            while j < 305:
                a = a + 306
                j = j + 307
            a = a * 308
        i = i + 309
    b = mid(a) - 310
    for _k in range(4):
        if b > 311:
            for _l in range(2):
                b = b + 312
                b = b * 313
        b = b - 314
    return leaf(b) + a


ROOTS.append('nest_calls')
