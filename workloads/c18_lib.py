"""
Programs of fpy2's own libraries as C18 workload: error-free transformations
(which call primitives and build contexts from the caller's), vector kernels on
lists.  Same objects the library exports; nothing is redefined here.
"""
import fpy2 as fp
from fpy2.libraries.eft import (classic_2mul, classic_2sum, fast_2sum, ideal_2mul, ideal_2sum, priest_2sum,
                                veltkamp_split)
from fpy2.libraries.vector import (add, axpy, cosine_similarity, cross, dot, dot_add, hadamard, max_element, mean,
                                   norm1, norm2, norm_inf, normalize, scale)
from fpy2.libraries.core import ldexp, logb, tree_sum

SIG = {
    'fast_2sum': ['num', 'num'],
    'classic_2sum': ['num', 'num'],
    'priest_2sum': ['num', 'num'],
    'ideal_2sum': ['num', 'num'],
    'classic_2mul': ['num', 'num'],
    'ideal_2mul': ['num', 'num'],
    'add': ['list3', 'list3'],
    'hadamard': ['list3', 'list3'],
    'dot': ['list3', 'list3'],
    'dot_add': ['list3', 'list3', 'num'],
    'axpy': ['num', 'list3', 'list3'],
    'scale': ['num', 'list3'],
    'cross': ['list3', 'list3'],
    'norm1': ['list3'],
    'norm2': ['list3'],
    'norm_inf': ['list3'],
    'normalize': ['list3'],
    'cosine_similarity': ['list3', 'list3'],
    'mean': ['list3'],
    'max_element': ['list3'],
    'logb': ['pos'],
    'ldexp': ['num', 'cnt'],
}

DERIVABLE = {
    'dot': [('elim_iter', {}), ('simplify', {})],
    'axpy': [('simplify', {})],
    'norm2': [('inline', {}), ('simplify', {})],
    'cosine_similarity': [('inline', {})],
    'normalize': [('inline', {})],
}

AMBIENT = sorted(SIG)
FAILING = []
