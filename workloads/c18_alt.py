"""
Same function names as c18_main, different bodies: catches caches keyed by
name or by anything coarser than the function object.
"""
import fpy2 as fp

RTZ16 = fp.IEEEContext(5, 16, fp.RM.RAZ)   # same *name*, different mode
RTP16 = fp.IEEEContext(5, 16, fp.RM.RTN)
K = 5
HALF = 0.25


@fp.fpy
def helper_noctx(x: fp.Real) -> fp.Real:
    return x / 7 - 1


@fp.fpy
def helper_ctx(x: fp.Real) -> fp.Real:
    with RTZ16:
        y = x / 3
    return y


@fp.fpy
def calls(x: fp.Real) -> tuple[fp.Real, fp.Real, fp.Real, fp.Real]:
    with fp.FP16:
        a = helper_noctx(x)
        b = helper_ctx(x)
    with RTP16:
        c = helper_noctx(x)
    d = helper_ctx(x)
    return (d, c, b, a)


@fp.fpy
def nested(x: fp.Real, y: fp.Real) -> fp.Real:
    with fp.FP32:
        a = x * y
        with RTZ16:
            b = a / 3
    return a - b


@fp.fpy
def cap_num(x: fp.Real) -> fp.Real:
    with fp.FP16:
        return x / K + HALF


@fp.fpy
def mut_list(xs: list[fp.Real]) -> fp.Real:
    with fp.FP32:
        xs[1] = xs[0] / 3
        xs[0] = 9
    return xs[0] + xs[1]


@fp.fpy
def ident(x: fp.Real) -> fp.Real:
    with fp.FP16:
        y = x + 0
    return y


SIG = {
    'helper_noctx': ['num'],
    'helper_ctx': ['num'],
    'calls': ['num'],
    'nested': ['num', 'nz'],
    'cap_num': ['num'],
    'mut_list': ['list2+'],
    'ident': ['num'],
}

DERIVABLE = {
    'calls': [('inline', {}), ('simplify', {})],
    'nested': [('simplify', {})],
}
