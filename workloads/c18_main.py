"""
FPy programs the simulated callers of C18 run.  Every function is
deterministic (no stochastic context, no print).  `SIG` describes the argument
kinds the generator may hand each one.
"""
import fpy2 as fp

RTZ16 = fp.IEEEContext(5, 16, fp.RM.RTZ)
RTP16 = fp.IEEEContext(5, 16, fp.RM.RTP)
RTN32 = fp.IEEEContext(8, 32, fp.RM.RTN)
RAZ8 = fp.IEEEContext(4, 8, fp.RM.RAZ)
FX4 = fp.MPFixedContext(-5, fp.RM.RNE)
MP5 = fp.MPFloatContext(5, fp.RM.RTO)
FXF = fp.MPFixedContext(-30, fp.RM.RNE)     # a fixed-point grid finer than binary16/binary32 digits near 1
MP40 = fp.MPFloatContext(40, fp.RM.RNE)
MP12 = fp.MPFloatContext(12, fp.RM.RNE)      # one digit more than binary16
MP25 = fp.MPFloatContext(25, fp.RM.RNE)      # one digit more than binary32
FXM = fp.MPFixedContext(-20, fp.RM.RTZ)     # finer than binary16 digits near 1, coarser than binary32's
K = 3
HALF = 0.5


@fp.fpy
def nested(x: fp.Real, y: fp.Real) -> fp.Real:
    with fp.FP64:
        a = x / y
        with RTZ16:
            b = a * a + x
            with RTP16:
                c = b / 3
            d = b - c
        e = a + d
    return e + c


@fp.fpy
def early(x: fp.Real) -> fp.Real:
    with RTN32:
        if x > 1:
            return x / 3
        y = x * x
    return y + fp.sqrt(x)


@fp.fpy
def helper_noctx(x: fp.Real) -> fp.Real:
    return x / 3 + 1


@fp.fpy
def helper_ctx(x: fp.Real) -> fp.Real:
    with RTZ16:
        y = x / 7
    return y


@fp.fpy
def calls(x: fp.Real) -> tuple[fp.Real, fp.Real, fp.Real, fp.Real]:
    with fp.FP32:
        a = helper_noctx(x)
        b = helper_ctx(x)
    with RTP16:
        c = helper_noctx(x)
    d = helper_noctx(x)
    return (a, b, c, d)


@fp.fpy
def alt_loop(x: fp.Real, n: fp.Real) -> fp.Real:
    acc = x
    i = 0
    while i < n:
        with RTP16:
            acc = acc / 3
        with RTZ16:
            acc = acc * 3 + fp.rational(1, 10)
        i = i + 1
    return acc


@fp.fpy
def directed(x: fp.Real) -> tuple[fp.Real, fp.Real, fp.Real, fp.Real]:
    with RTP16:
        a = x / 3
    with RTZ16:
        b = x / 3
    with RAZ8:
        c = fp.sqrt(x + 2)
    with MP5:
        d = x / 3
    return (a, b, c, d)


@fp.fpy
def trans(x: fp.Real) -> tuple[fp.Real, fp.Real, fp.Real]:
    with RTZ16:
        a = fp.sin(x) + fp.exp(x)
    with fp.FP64:
        b = fp.log(x * x + 1) * fp.const_pi()
    with FX4:
        c = fp.cos(x) + fp.rational(1, 3)
    return (a, b, c)


@fp.fpy
def mut_list(xs: list[fp.Real]) -> fp.Real:
    with fp.FP64:
        xs[0] = xs[0] + 1
        xs[1] = 7
        s = 0
        for x in xs:
            s = s + x
    return s


@fp.fpy
def ret_param(xs: list[fp.Real]) -> list[fp.Real]:
    xs[0] = 5
    return xs


@fp.fpy
def ret_pair(xs: list[fp.Real]) -> tuple[list[fp.Real], list[fp.Real]]:
    return (xs, xs)


@fp.fpy
def ident(x: fp.Real) -> fp.Real:
    return x


@fp.fpy
def ident_pair(p: tuple[fp.Real, list[fp.Real]]) -> tuple[fp.Real, list[fp.Real]]:
    return p


@fp.fpy
def nested_lists(xss: list[list[fp.Real]]) -> list[fp.Real]:
    with fp.FP32:
        row = xss[1]
        row[0] = row[0] * 3
        out = [r[0] + 1 for r in xss]
    return out


@fp.fpy
def deep(t: tuple[list[fp.Real], tuple[fp.Real, list[fp.Real]]]) -> list[fp.Real]:
    a, rest = t
    b, c = rest
    with RTZ16:
        c[0] = c[0] / 3 + b
        a[0] = c[0]
    return c


@fp.fpy
def slices(xs: list[fp.Real]) -> list[fp.Real]:
    ys = xs[1:3]
    ys[0] = 42
    return ys


@fp.fpy
def callee_write(zs: list[fp.Real]) -> fp.Real:
    with fp.FP64:
        zs[0] = zs[0] + 76
    return zs[0]


@fp.fpy
def share_call(xs: list[fp.Real]) -> tuple[fp.Real, list[fp.Real]]:
    with RTP16:
        a = callee_write(xs)
        b = xs[0] / 3
    return (a + b, xs)


@fp.fpy
def dot(xs: list[fp.Real], ys: list[fp.Real]) -> fp.Real:
    acc = 0
    for x, y in zip(xs, ys):
        with fp.FP32:
            acc = acc + x * y
    return acc


@fp.fpy
def sum_enum(xs: list[fp.Real]) -> fp.Real:
    acc = 0
    for i, x in enumerate(xs):
        with RTZ16:
            acc = acc + x / (i + 3)
    return acc


@fp.fpy
def cap_num(x: fp.Real) -> fp.Real:
    with fp.FP32:
        return x * K + HALF


@fp.fpy
def asserting(x: fp.Real) -> fp.Real:
    with RTZ16:
        y = x / 3
        assert y < 2
        z = y * 3
    return z


@fp.fpy
def indexer(xs: list[fp.Real], i: fp.Real) -> fp.Real:
    with RTP16:
        y = xs[i] / 3
    return y


@fp.fpy
def exact_or_fail(x: fp.Real) -> fp.Real:
    with RTZ16:
        y = fp.round_exact(x)
    return y + 1


@fp.fpy
def poly(x: fp.Real) -> fp.Real:
    with fp.FP16:
        r = 0
        for c in [1, 3, 5, 7]:
            r = r * x + c
    return r


@fp.fpy_primitive
def reenter(x: fp.Real, ctx: fp.Context) -> fp.Real:
    # re-entry: the Python body of a primitive calls another FPy function under
    # a different context while the outer call is live
    return helper_noctx(x, ctx=RTZ16)


@fp.fpy
def via_prim(x: fp.Real) -> tuple[fp.Real, fp.Real]:
    with fp.FP32:
        a = x / 3
        b = reenter(a)
        c = a / 7
    return (b, c)


@fp.fpy
def callee_fail(xs: list[fp.Real], i: fp.Real) -> fp.Real:
    with fp.FP32:
        y = xs[i] / 3          # IndexError when i is out of range
    assert y < 50
    return y


@fp.fpy
def calls_failing(xs: list[fp.Real], i: fp.Real) -> fp.Real:
    # the failure happens *below* a call made by the program, under a context that is not the default
    with RTZ16:
        y = callee_fail(xs, i) + 1
        with RTP16:
            z = callee_fail(xs, i + 1) / 7
    return y + z


@fp.fpy_primitive
def picky(x: fp.Real, ctx: fp.Context) -> fp.Real:
    if x > 2:
        raise ValueError('picky')
    return helper_noctx(x, ctx=RTP16)


@fp.fpy
def via_picky(x: fp.Real) -> fp.Real:
    with RAZ8:
        y = picky(x) + 1
    return y


PTABLE = [fp.FP64.round(2), fp.FP64.round(4), fp.FP64.round(8)]     # a Python-owned list of FPy numbers


@fp.fpy
def halve_first(zs: list[fp.Real]) -> fp.Real:
    with fp.FP32:
        zs[0] = zs[0] / 2
    return zs[0] + zs[1]


@fp.fpy_primitive
def table_sum(x: fp.Real, ctx: fp.Context) -> fp.Real:
    # a Python body handing a Python-owned list to an FPy function that writes its parameter:
    # a call from Python like any other, so the list must come back untouched
    return halve_first(PTABLE, ctx=ctx)


@fp.fpy
def use_table(x: fp.Real) -> fp.Real:
    with fp.FP32:
        y = table_sum(x) + x
    return y


@fp.fpy_primitive
def pass_list(xs: list[fp.Real], ctx: fp.Context) -> fp.Real:
    return halve_first(xs, ctx=ctx)


@fp.fpy
def use_pass_list(xs: list[fp.Real]) -> tuple[fp.Real, fp.Real]:
    with fp.FP32:
        s = pass_list(xs)
    return (s, xs[0])


@fp.fpy(ctx=fp.FP32)
def pinned32(x: fp.Real) -> fp.Real:
    # the function pins its own context: the caller's `ctx=` must not matter
    return x / 3 + 1


@fp.fpy(ctx=RTZ16)
def pinned_rtz16(x: fp.Real) -> fp.Real:
    y = x / 7
    return y * 3


@fp.fpy
def calls_pinned(x: fp.Real) -> tuple[fp.Real, fp.Real, fp.Real]:
    with fp.FP64:
        a = pinned32(x)
        b = pinned_rtz16(x)
        c = x / 3
    return (a, b, c)


@fp.fpy
def narrow(x: fp.Real) -> fp.Real:
    # an explicit rounding of the parameter itself under a small format (it may overflow)
    with fp.FP16:
        y = fp.round(x)
    return y


@fp.fpy
def narrow_neg(x: fp.Real) -> fp.Real:
    with fp.REAL:
        t = -x
    with fp.FP16:
        y = fp.round(t)
    return y


@fp.fpy
def narrow_all(xs: list[fp.Real]) -> list[fp.Real]:
    with fp.FP16:
        ys = [fp.round(x) for x in xs]
    return ys


@fp.fpy
def extremes(x: fp.Real) -> tuple[fp.Real, fp.Real, fp.Real]:
    # values far from 1 in both directions, under whatever exponent range the caller's context has
    a = fp.exp(x * 50)
    b = fp.exp(0 - x * 60)
    c = fp.sqrt(a) * b
    return (a, b, c)


@fp.fpy
def tenth(x: fp.Real) -> fp.Real:
    # non-dyadic literals, rounded under whatever context the caller supplies
    y = x * 0.1
    return y + fp.rational(1, 3)


@fp.fpy
def tenth16(x: fp.Real) -> fp.Real:
    with fp.FP16:
        y = x * 0.1 + fp.rational(1, 3)
    return y


@fp.fpy
def tenth32(x: fp.Real) -> fp.Real:
    with fp.FP32:
        y = x * 0.1 - fp.rational(1, 3)
    return y


def _make_scale(k):
    @fp.fpy
    def scale_by(x: fp.Real) -> fp.Real:
        with fp.FP32:
            return x * k
    return scale_by


scale3 = _make_scale(3)      # a callee living in another scope: it captures `k` in a closure cell


@fp.fpy
def uses_closure(x: fp.Real) -> fp.Real:
    with RTZ16:
        y = scale3(x) + 1
    return y


gain = 2.0


@fp.fpy
def boosted(x: fp.Real) -> fp.Real:
    return x * gain


@fp.fpy
def shadowing(x: fp.Real, gain: fp.Real) -> fp.Real:
    # the parameter shadows the module constant the callee reads
    with fp.FP32:
        return boosted(x) + gain



# ---- results the caller is free to scribble on: whatever comes back belongs to the caller alone ----

LITTAB = [fp.FP64.round(3), fp.FP64.round(5), fp.FP64.round(9)]     # a Python-owned list no FPy code writes


@fp.fpy
def ret_literal(x: fp.Real) -> list[fp.Real]:
    ys = [1.5, 2.5, 3.5]
    return ys


@fp.fpy
def ret_nested_literal(x: fp.Real) -> list[list[fp.Real]]:
    rows = [[1.0, 2.0], [3.0, x]]
    return rows


@fp.fpy
def ret_table(x: fp.Real) -> tuple[list[fp.Real], fp.Real]:
    return (LITTAB, LITTAB[0] + x)


@fp.fpy
def make_row(x: fp.Real) -> list[fp.Real]:
    return [x, x + 1]


@fp.fpy
def ret_callee(x: fp.Real) -> tuple[list[fp.Real], fp.Real]:
    r = make_row(x)
    return (r, r[0])


@fp.fpy
def whole_slice(xs: list[fp.Real]) -> list[fp.Real]:
    return xs[:]


@fp.fpy
def ret_inner(xss: list[list[fp.Real]]) -> list[fp.Real]:
    return xss[0]


@fp.fpy
def ret_both(xs: list[fp.Real], ys: list[fp.Real]) -> tuple[list[fp.Real], list[fp.Real]]:
    return (ys, xs)


@fp.fpy
def ret_readonly(xs: list[fp.Real]) -> list[fp.Real]:
    # never writes its parameter
    s = xs[0] + 1
    return xs


@fp.fpy
def ret_comp(xs: list[fp.Real]) -> list[list[fp.Real]]:
    return [[x, x * 2] for x in xs]




@fp.fpy
def circle(x: fp.Real) -> fp.Real:
    # library constants under the caller's context (computed by the engine to the precision asked for)
    return 2 * fp.const_pi() * x + fp.const_e()


@fp.fpy
def consts(x: fp.Real) -> tuple[fp.Real, fp.Real, fp.Real]:
    return (fp.const_pi(), fp.const_log2e() * x, fp.const_sqrt2())


@fp.fpy
def fill(i: fp.Real, j: fp.Real, v: fp.Real) -> list[list[fp.Real]]:
    # a display of literals, nested or not, is a new value at every evaluation: what one call wrote
    # into it is gone at the next
    m = [[0, 0], [0, 0]]
    m[i][j] = v
    return m


@fp.fpy
def tally(a: fp.Real, b: fp.Real) -> fp.Real:
    acc, k = ([0, 0, 0], 1)
    acc[k] = acc[k] + a
    acc[0] = acc[0] + b
    return acc[0] + acc[1] + acc[2]


@fp.fpy
def litrow(v: fp.Real) -> tuple[list[fp.Real], fp.Real]:
    row = [1, 2, 3]
    row[1] = row[1] + v
    t = ([4, 5], 6)
    u = t[0]
    u[0] = u[0] + v
    return (row, u[0] + u[1])


@fp.fpy
def q_a16(x: fp.Real) -> fp.Real:
    # two functions alike but for the context of their block: what a derived copy keeps of its
    # context (`simplify` leaves it in the program as a value) must stay with that copy
    with fp.FP16:
        y = x * 1 + 0
    return y


@fp.fpy
def q_b8(x: fp.Real) -> fp.Real:
    with RAZ8:
        y = x * 1 + 0
    return y


@fp.fpy
def widen(x: fp.Real) -> tuple[fp.Real, fp.Real]:
    # rounding a parameter as it is, under formats that hold it exactly: the number passed in (which may
    # carry flags from whatever produced it) is not the function's to touch
    with fp.FP64:
        y = fp.round(x)
    with MP40:
        z = fp.round(x)
    return (y, z)


CHURN_N = 300


def _mk_churn(k):
    @fp.fpy
    def one(x: fp.Real) -> fp.Real:
        return x + k
    return one


@fp.fpy_primitive
def churn(x: fp.Real, ctx: fp.Context) -> fp.Real:
    # a primitive whose Python body defines and evaluates a few hundred small functions through the
    # default interpreter while its caller's evaluation is still in flight
    acc = x
    for i in range(CHURN_N):
        acc = _mk_churn(i % 7)(x, ctx=ctx)
    return acc


@fp.fpy
def slow_churn(x: fp.Real) -> fp.Real:
    with fp.FP32:
        y = x + 1
        z = churn(y)
    return y * 2 + z

# ---- index loops of different lengths: every index value matters to the result ----
@fp.fpy
def idx5(x: fp.Real) -> fp.Real:
    acc = x
    for i in range(5):
        acc = acc + i * (i + x)
    return acc


@fp.fpy
def idx12(x: fp.Real) -> fp.Real:
    acc = x
    for i in range(12):
        acc = acc + i * (i + x)
    return acc


@fp.fpy
def idx40(x: fp.Real) -> fp.Real:
    with fp.FP64:
        acc = x
        for i in range(40):
            acc = acc + i * (i + x)
    return acc


@fp.fpy
def idx_step(x: fp.Real) -> fp.Real:
    acc = x
    for i in range(2, 30, 3):
        acc = acc * 2 + i
    for j in range(7):
        acc = acc - j
    return acc


@fp.fpy
def enum_w(xs: list[fp.Real]) -> fp.Real:
    ys = [xs[0] + k for k in range(15)]
    acc = 0
    for i, y in enumerate(ys):
        acc = acc + (i + 1) * y
    return acc


# ---- twins whose constants differ only in the sign of a zero (equal as numbers, not the same value) ----
@fp.fpy
def zs_pos(x: fp.Real) -> tuple[fp.Real, fp.Real]:
    with fp.FP64:
        z = 0.0 * 2.0
        w = 0.0 + 0.0
        return (x / z, x / w)


@fp.fpy
def zs_neg(x: fp.Real) -> tuple[fp.Real, fp.Real]:
    with fp.FP64:
        z = -0.0 * 2.0
        w = -0.0 + -0.0
        return (x / z, x / w)


# ---- twins that hand a library primitive arguments equal as numbers but not the same value (+0 / -0) ----
from fpy2.libraries.core import frexp as _frexp, modf as _modf


@fp.fpy
def prim_pos(x: fp.Real) -> tuple[fp.Real, fp.Real]:
    with fp.FP64:
        z = 0.0 * x
        i, f = _modf(z)
        m, e = _frexp(z)
    return (f, m)


@fp.fpy
def prim_neg(x: fp.Real) -> tuple[fp.Real, fp.Real]:
    with fp.FP64:
        z = -0.0 * x
        i, f = _modf(z)
        m, e = _frexp(z)
    return (f, m)


# ---- twins that build a context inside the program from a signed zero (fixed-point format without NaN:
# NaN is replaced by that zero) ----
@fp.fpy
def sat_pos(x: fp.Real) -> tuple[fp.Real, fp.Real]:
    with fp.FP64:
        n = (x - x) / (x - x)
        z = 0.0 * x
    with fp.MPFixedContext(-2, fp.RM.RNE, nan_value=z):
        a = n + 0
    with fp.MPFixedContext(-3, fp.RM.RTZ, nan_value=z):
        b = n * 1
    return (a, b)


@fp.fpy
def sat_neg(x: fp.Real) -> tuple[fp.Real, fp.Real]:
    with fp.FP64:
        n = (x - x) / (x - x)
        z = -0.0 * x
    with fp.MPFixedContext(-2, fp.RM.RNE, nan_value=z):
        a = n + 0
    with fp.MPFixedContext(-3, fp.RM.RTZ, nan_value=z):
        b = n * 1
    return (a, b)


# ---- programs nested deeply: one operator chain, as program generators and inlining produce them ----
# `deep_chain` (a thousand terms) is nested deeper than the interpreter's default recursion limit lets
# the library compile: evaluating it fails with RecursionError -- in every process, thread and history
# alike, far from the border (it needs more than twice the default).  `chain100` compiles (a long
# compilation to be in the middle of while other callers come and go).  Defining them needs head-room
# for the parser, put back at once.
import sys as _sys
_lim = _sys.getrecursionlimit()
_sys.setrecursionlimit(max(_lim, 20000))
try:
    @fp.fpy
    def deep_chain(x: fp.Real) -> fp.Real:
        return x + 1 + 1 + 1 + 1 + 1 + 1 + 1 + 1 + 1 + 1 + 1 + 1 + 1 + 1 + 1 + 1 + 1 + 1 + 1 + 1 + 1 + 1 + 1 + 1 + 1 + 1 + 1 + 1 + 1 + 1 + 1 + 1 + 1 + 1 + 1 + 1 + 1 + 1 + 1 + 1 + 1 + 1 + 1 + 1 + 1 + 1 + 1 + 1 + 1 + 1 + 1 + 1 + 1 + 1 + 1 + 1 + 1 + 1 + 1 + 1 + 1 + 1 + 1 + 1 + 1 + 1 + 1 + 1 + 1 + 1 + 1 + 1 + 1 + 1 + 1 + 1 + 1 + 1 + 1 + 1 + 1 + 1 + 1 + 1 + 1 + 1 + 1 + 1 + 1 + 1 + 1 + 1 + 1 + 1 + 1 + 1 + 1 + 1 + 1 + 1 + 1 + 1 + 1 + 1 + 1 + 1 + 1 + 1 + 1 + 1 + 1 + 1 + 1 + 1 + 1 + 1 + 1 + 1 + 1 + 1 + 1 + 1 + 1 + 1 + 1 + 1 + 1 + 1 + 1 + 1 + 1 + 1 + 1 + 1 + 1 + 1 + 1 + 1 + 1 + 1 + 1 + 1 + 1 + 1 + 1 + 1 + 1 + 1 + 1 + 1 + 1 + 1 + 1 + 1 + 1 + 1 + 1 + 1 + 1 + 1 + 1 + 1 + 1 + 1 + 1 + 1 + 1 + 1 + 1 + 1 + 1 + 1 + 1 + 1 + 1 + 1 + 1 + 1 + 1 + 1 + 1 + 1 + 1 + 1 + 1 + 1 + 1 + 1 + 1 + 1 + 1 + 1 + 1 + 1 + 1 + 1 + 1 + 1 + 1 + 1 + 1 + 1 + 1 + 1 + 1 + 1 + 1 + 1 + 1 + 1 + 1 + 1 + 1 + 1 + 1 + 1 + 1 + 1 + 1 + 1 + 1 + 1 + 1 + 1 + 1 + 1 + 1 + 1 + 1 + 1 + 1 + 1 + 1 + 1 + 1 + 1 + 1 + 1 + 1 + 1 + 1 + 1 + 1 + 1 + 1 + 1 + 1 + 1 + 1 + 1 + 1 + 1 + 1 + 1 + 1 + 1 + 1 + 1 + 1 + 1 + 1 + 1 + 1 + 1 + 1 + 1 + 1 + 1 + 1 + 1 + 1 + 1 + 1 + 1 + 1 + 1 + 1 + 1 + 1 + 1 + 1 + 1 + 1 + 1 + 1 + 1 + 1 + 1 + 1 + 1 + 1 + 1 + 1 + 1 + 1 + 1 + 1 + 1 + 1 + 1 + 1 + 1 + 1 + 1 + 1 + 1 + 1 + 1 + 1 + 1 + 1 + 1 + 1 + 1 + 1 + 1 + 1 + 1 + 1 + 1 + 1 + 1 + 1 + 1 + 1 + 1 + 1 + 1 + 1 + 1 + 1 + 1 + 1 + 1 + 1 + 1 + 1 + 1 + 1 + 1 + 1 + 1 + 1 + 1 + 1 + 1 + 1 + 1 + 1 + 1 + 1 + 1 + 1 + 1 + 1 + 1 + 1 + 1 + 1 + 1 + 1 + 1 + 1 + 1 + 1 + 1 + 1 + 1 + 1 + 1 + 1 + 1 + 1 + 1 + 1 + 1 + 1 + 1 + 1 + 1 + 1 + 1 + 1 + 1 + 1 + 1 + 1 + 1 + 1 + 1 + 1 + 1 + 1 + 1 + 1 + 1 + 1 + 1 + 1 + 1 + 1 + 1 + 1 + 1 + 1 + 1 + 1 + 1 + 1 + 1 + 1 + 1 + 1 + 1 + 1 + 1 + 1 + 1 + 1 + 1 + 1 + 1 + 1 + 1 + 1 + 1 + 1 + 1 + 1 + 1 + 1 + 1 + 1 + 1 + 1 + 1 + 1 + 1 + 1 + 1 + 1 + 1 + 1 + 1 + 1 + 1 + 1 + 1 + 1 + 1 + 1 + 1 + 1 + 1 + 1 + 1 + 1 + 1 + 1 + 1 + 1 + 1 + 1 + 1 + 1 + 1 + 1 + 1 + 1 + 1 + 1 + 1 + 1 + 1 + 1 + 1 + 1 + 1 + 1 + 1 + 1 + 1 + 1 + 1 + 1 + 1 + 1 + 1 + 1 + 1 + 1 + 1 + 1 + 1 + 1 + 1 + 1 + 1 + 1 + 1 + 1 + 1 + 1 + 1 + 1 + 1 + 1 + 1 + 1 + 1 + 1 + 1 + 1 + 1 + 1 + 1 + 1 + 1 + 1 + 1 + 1 + 1 + 1 + 1 + 1 + 1 + 1 + 1 + 1 + 1 + 1 + 1 + 1 + 1 + 1 + 1 + 1 + 1 + 1 + 1 + 1 + 1 + 1 + 1 + 1 + 1 + 1 + 1 + 1 + 1 + 1 + 1 + 1 + 1 + 1 + 1 + 1 + 1 + 1 + 1 + 1 + 1 + 1 + 1 + 1 + 1 + 1 + 1 + 1 + 1 + 1 + 1 + 1 + 1 + 1 + 1 + 1 + 1 + 1 + 1 + 1 + 1 + 1 + 1 + 1 + 1 + 1 + 1 + 1 + 1 + 1 + 1 + 1 + 1 + 1 + 1 + 1 + 1 + 1 + 1 + 1 + 1 + 1 + 1 + 1 + 1 + 1 + 1 + 1 + 1 + 1 + 1 + 1 + 1 + 1 + 1 + 1 + 1 + 1 + 1 + 1 + 1 + 1 + 1 + 1 + 1 + 1 + 1 + 1 + 1 + 1 + 1 + 1 + 1 + 1 + 1 + 1 + 1 + 1 + 1 + 1 + 1 + 1 + 1 + 1 + 1 + 1 + 1 + 1 + 1 + 1 + 1 + 1 + 1 + 1 + 1 + 1 + 1 + 1 + 1 + 1 + 1 + 1 + 1 + 1 + 1 + 1 + 1 + 1 + 1 + 1 + 1 + 1 + 1 + 1 + 1 + 1 + 1 + 1 + 1 + 1 + 1 + 1 + 1 + 1 + 1 + 1 + 1 + 1 + 1 + 1 + 1 + 1 + 1 + 1 + 1 + 1 + 1 + 1 + 1 + 1 + 1 + 1 + 1 + 1 + 1 + 1 + 1 + 1 + 1 + 1 + 1 + 1 + 1 + 1 + 1 + 1 + 1 + 1 + 1 + 1 + 1 + 1 + 1 + 1 + 1 + 1 + 1 + 1 + 1 + 1 + 1 + 1 + 1 + 1 + 1 + 1 + 1 + 1 + 1 + 1 + 1 + 1 + 1 + 1 + 1 + 1 + 1 + 1 + 1 + 1 + 1 + 1 + 1 + 1 + 1 + 1 + 1 + 1 + 1 + 1 + 1 + 1 + 1 + 1 + 1 + 1 + 1 + 1 + 1 + 1 + 1 + 1 + 1 + 1 + 1 + 1 + 1 + 1 + 1 + 1 + 1 + 1 + 1 + 1 + 1 + 1 + 1 + 1 + 1 + 1 + 1 + 1 + 1 + 1 + 1 + 1 + 1 + 1 + 1 + 1 + 1 + 1 + 1 + 1 + 1 + 1 + 1 + 1 + 1 + 1 + 1 + 1 + 1 + 1 + 1 + 1 + 1 + 1 + 1 + 1 + 1 + 1 + 1 + 1 + 1 + 1 + 1 + 1 + 1 + 1 + 1 + 1 + 1 + 1 + 1 + 1 + 1 + 1 + 1 + 1 + 1 + 1 + 1 + 1 + 1 + 1 + 1 + 1 + 1 + 1 + 1 + 1 + 1 + 1 + 1 + 1 + 1 + 1 + 1 + 1 + 1 + 1 + 1 + 1 + 1 + 1 + 1 + 1 + 1 + 1 + 1 + 1 + 1 + 1 + 1 + 1 + 1 + 1 + 1 + 1 + 1 + 1 + 1 + 1 + 1 + 1 + 1 + 1 + 1 + 1 + 1 + 1 + 1 + 1 + 1 + 1 + 1 + 1 + 1 + 1 + 1 + 1 + 1 + 1 + 1 + 1 + 1 + 1 + 1 + 1 + 1 + 1 + 1 + 1 + 1 + 1 + 1 + 1 + 1 + 1 + 1 + 1 + 1 + 1 + 1 + 1 + 1 + 1 + 1 + 1 + 1 + 1 + 1 + 1 + 1 + 1 + 1 + 1 + 1 + 1 + 1 + 1 + 1 + 1 + 1 + 1 + 1 + 1 + 1 + 1 + 1 + 1 + 1 + 1 + 1 + 1 + 1 + 1 + 1 + 1 + 1 + 1 + 1 + 1 + 1 + 1 + 1 + 1 + 1 + 1 + 1 + 1 + 1 + 1 + 1 + 1 + 1 + 1 + 1 + 1 + 1 + 1 + 1 + 1 + 1 + 1 + 1 + 1 + 1 + 1 + 1 + 1 + 1 + 1 + 1 + 1 + 1 + 1 + 1

    @fp.fpy
    def chain100(x: fp.Real) -> fp.Real:
        with fp.FP32:
            y = x + 0.1 + 0.1 + 0.1 + 0.1 + 0.1 + 0.1 + 0.1 + 0.1 + 0.1 + 0.1 + 0.1 + 0.1 + 0.1 + 0.1 + 0.1 + 0.1 + 0.1 + 0.1 + 0.1 + 0.1 + 0.1 + 0.1 + 0.1 + 0.1 + 0.1 + 0.1 + 0.1 + 0.1 + 0.1 + 0.1 + 0.1 + 0.1 + 0.1 + 0.1 + 0.1 + 0.1 + 0.1 + 0.1 + 0.1 + 0.1 + 0.1 + 0.1 + 0.1 + 0.1 + 0.1 + 0.1 + 0.1 + 0.1 + 0.1 + 0.1 + 0.1 + 0.1 + 0.1 + 0.1 + 0.1 + 0.1 + 0.1 + 0.1 + 0.1 + 0.1 + 0.1 + 0.1 + 0.1 + 0.1 + 0.1 + 0.1 + 0.1 + 0.1 + 0.1 + 0.1 + 0.1 + 0.1 + 0.1 + 0.1 + 0.1 + 0.1 + 0.1 + 0.1 + 0.1 + 0.1 + 0.1 + 0.1 + 0.1 + 0.1 + 0.1 + 0.1 + 0.1 + 0.1 + 0.1 + 0.1 + 0.1 + 0.1 + 0.1 + 0.1 + 0.1 + 0.1 + 0.1 + 0.1 + 0.1 + 0.1
        return y
finally:
    _sys.setrecursionlimit(_lim)

# ---- derivations by user rewrite rules (expression rewrites keep the statement: no statement edit) ----

@fp.pattern
def _fma_l(a, b, c):
    a * b + c


@fp.pattern
def _fma_r(a, b, c):
    fp.fma(a, b, c)


@fp.pattern
def _dbl_l(a):
    a + a


@fp.pattern
def _dbl_r(a):
    2 * a


def rewrite_rule(name: str):
    from fpy2.rewrite import Rewrite
    lhs, rhs = {'rw_fma': (_fma_l, _fma_r), 'rw_dbl': (_dbl_l, _dbl_r)}[name]
    return Rewrite(lhs, rhs, name=name)


@fp.fpy
def muladd(a: fp.Real, b: fp.Real, c: fp.Real) -> fp.Real:
    # under the caller's context: fused and unfused differ in the last digit for most operands
    return a * b + c


@fp.fpy
def muladd8(a: fp.Real, b: fp.Real, c: fp.Real) -> fp.Real:
    # the rounding error of a product: zero when the product is rounded before the sum (as written),
    # the error itself once the two are fused -- a fused copy and the source differ for nearly all arguments
    with fp.FP16:
        t = a / 3 + 1
        u = c / 7 + 1
        p = t * u
        q = -p
        r = t * u + q
    return r


@fp.fpy
def muladd16(a: fp.Real, b: fp.Real, c: fp.Real) -> tuple[fp.Real, fp.Real]:
    with fp.FP16:
        t = a * b + c
        u = (t + t) * b + a
    return (t, u)


SIG = {
    'sat_pos': ['pos'],
    'sat_neg': ['pos'],
    'prim_pos': ['pos'],
    'prim_neg': ['pos'],
    'idx5': ['num'],
    'idx12': ['num'],
    'idx40': ['num'],
    'idx_step': ['num'],
    'enum_w': ['list1+'],
    'zs_pos': ['pos'],
    'zs_neg': ['pos'],
    'deep_chain': ['num'],
    'chain100': ['num'],
    'muladd8': ['num', 'num', 'num'],
    'widen': ['flagged'],
    'slow_churn': ['num'],
    'q_a16': ['num'],
    'q_b8': ['num'],
    'fill': ['bit', 'bit', 'num'],
    'tally': ['num', 'num'],
    'litrow': ['num'],
    'circle': ['num'],
    'consts': ['num'],
    'muladd': ['num', 'num', 'num'],
    'muladd16': ['num', 'num', 'num'],
    'ret_literal': ['num'],
    'ret_nested_literal': ['num'],
    'ret_table': ['num'],
    'ret_callee': ['num'],
    'whole_slice': ['list1+'],
    'ret_inner': ['list2d'],
    'ret_both': ['list1+', 'list1+'],
    'ret_readonly': ['list1+'],
    'ret_comp': ['list1+'],
    'use_table': ['num'],
    'use_pass_list': ['list2+'],
    'pinned32': ['num'],
    'pinned_rtz16': ['num'],
    'calls_pinned': ['num'],
    'narrow': ['big'],
    'narrow_neg': ['big'],
    'narrow_all': ['biglist'],
    'calls_failing': ['list2+', 'idx'],
    'via_picky': ['num'],
    'tenth': ['num'],
    'extremes': ['num_small'],
    'tenth16': ['num'],
    'tenth32': ['num'],
    'uses_closure': ['num'],
    'boosted': ['num'],
    'shadowing': ['num', 'num'],
    'nested': ['num', 'nz'],
    'early': ['pos'],
    'calls': ['num'],
    'alt_loop': ['num', 'cnt'],
    'directed': ['pos'],
    'trans': ['num_small'],
    'mut_list': ['list2+'],
    'ret_param': ['list1+'],
    'ret_pair': ['list1+'],
    'ident': ['any_num'],
    'ident_pair': ['pair_num_list'],
    'nested_lists': ['list2d'],
    'deep': ['deep'],
    'slices': ['list3+'],
    'share_call': ['list1+'],
    'dot': ['list3', 'list3'],
    'sum_enum': ['list1+'],
    'cap_num': ['num'],
    'asserting': ['num'],
    'indexer': ['list2+', 'idx'],
    'exact_or_fail': ['num'],
    'poly': ['num_small'],
    'via_prim': ['num'],
    'helper_noctx': ['num'],
    'helper_ctx': ['num'],
}

# functions whose operations run (at least partly) under the context the *caller* supplies: the ones
# for which "the same function under another context" is a different computation
AMBIENT = ['extremes', 'use_table', 'use_pass_list', 'pinned32', 'pinned_rtz16', 'calls_pinned', 'tenth', 'helper_noctx', 'calls', 'alt_loop', 'ident', 'boosted', 'dot', 'sum_enum', 'early', 'nested',
           'uses_closure', 'shadowing', 'deep_chain', 'chain100']

# functions whose loops run over indices the interpreter makes: the loop stampede
LOOPS = ['idx40', 'idx5', 'enum_w', 'idx12', 'idx_step', 'sum_enum', 'dot', 'alt_loop']

# twins: derived copies that must not be taken for each other (the second pair differs in the sign of a zero)
TWINS = [['q_a16', 'q_b8'], ['zs_pos', 'zs_neg'], ['prim_pos', 'prim_neg'], ['sat_pos', 'sat_neg']]

# functions that pin their own context with @fp.fpy(ctx=...) (a common idiom): the caller's ctx= must not matter
PINNED = ['pinned32', 'pinned_rtz16', 'calls_pinned']

# functions with operations outside any `with` of their own: what a stale or leaked ambient context would change
BARE = ['circle', 'consts', 'muladd', 'helper_noctx', 'extremes', 'tenth', 'boosted', 'calls', 'early', 'nested', 'uses_closure']
# programs whose failure happens below a call they make (in a callee, in a primitive)
FAIL_BELOW = ['calls_failing', 'via_picky']

# the special cases the workload was written for, rotated through by the 'focus' run shape
RETURNS_LISTS = ['ret_literal', 'ret_nested_literal', 'ret_table', 'ret_callee', 'whole_slice', 'ret_inner', 'ret_both',
                 'ret_readonly', 'ret_comp', 'ret_param', 'ret_pair', 'ident_pair', 'slices', 'nested_lists']

# everything that takes or returns containers
BOUNDARY = RETURNS_LISTS + ['deep', 'mut_list', 'share_call', 'dot', 'sum_enum', 'use_pass_list', 'poly', 'trans',
                            'narrow', 'narrow_neg', 'narrow_all', 'ident', 'fill', 'tally', 'litrow', 'widen']

# functions whose value under one context may meet what was kept from another: the context ladder
LADDER = ['tenth', 'consts', 'circle', 'muladd', 'extremes', 'helper_noctx']

SPECIAL = ['deep_chain', 'sat_neg', 'sat_pos', 'prim_neg', 'prim_pos', 'zs_neg', 'idx40', 'enum_w', 'zs_pos', 'idx_step', 'widen', 'slow_churn', 'chain100', 'fill', 'tally', 'litrow', 'circle', 'consts', 'muladd', 'muladd16', 'pinned32', 'narrow', 'extremes', 'tenth', 'use_table', 'uses_closure', 'deep', 'ret_param', 'via_prim', 'calls_failing',
           'calls', 'pinned_rtz16', 'narrow_neg', 'tenth16', 'use_pass_list', 'shadowing', 'ident_pair', 'ret_pair',
           'via_picky', 'asserting', 'cap_num', 'calls_pinned', 'narrow_all', 'tenth32', 'mut_list', 'nested_lists',
           'share_call', 'indexer', 'exact_or_fail', 'trans', 'directed', 'ident', 'slices',
           'ret_literal', 'ret_table', 'ret_callee', 'whole_slice', 'ret_inner', 'ret_both', 'ret_readonly', 'ret_nested_literal',
           'ret_comp']

# functions that raise for some of their catalogue arguments (the program fails mid-evaluation)
FAILING = ['asserting', 'indexer', 'exact_or_fail', 'calls_failing', 'via_picky']

# strategies that may be applied to each function (name -> list of (strategy, kwargs))
DERIVABLE = {
    'sat_pos': [('simplify', {})],
    'sat_neg': [('simplify', {})],
    'prim_pos': [('simplify', {})],
    'prim_neg': [('simplify', {})],
    'zs_pos': [('simplify', {})],
    'zs_neg': [('simplify', {})],
    'idx12': [('unroll_for', {'times': 1}), ('simplify', {})],
    'muladd8': [('rw_fma', {}), ('simplify', {})],
    'q_a16': [('simplify', {}), ('lift_context', {})],
    'q_b8': [('simplify', {}), ('lift_context', {})],
    'muladd': [('rw_fma', {}), ('rw_fma', {}), ('simplify', {})],
    'muladd16': [('rw_fma', {}), ('rw_dbl', {}), ('rw_fma', {})],
    'uses_closure': [('inline', {}), ('simplify', {})],
    'shadowing': [('inline', {}), ('close', {}), ('simplify', {})],
    'alt_loop': [('unroll_while', {'times': 1}), ('unroll_while', {'times': 2}), ('simplify', {})],
    'calls': [('inline', {}), ('simplify', {})],
    'share_call': [('inline', {})],
    'mut_list': [('unroll_for', {'times': 1}), ('split', {'factor': 2}), ('simplify', {})],
    'dot': [('elim_iter', {}), ('unroll_for', {'times': 1})],
    'sum_enum': [('elim_iter', {}), ('simplify', {})],
    'poly': [('unroll_for', {'times': 2}), ('simplify', {}), ('split', {'factor': 2})],
    'nested': [('simplify', {}), ('lift_context', {})],
    'cap_num': [('close', {}), ('simplify', {})],
    'directed': [('simplify', {}), ('lift_context', {})],
    'via_prim': [('simplify', {})],
}
