"""
Whole FPy programs evaluated under a stochastic context (C17, program route).
Each lists how many rounded operations one evaluation performs for positive
arguments (every intermediate is then finite and non-zero, so each rounding
consumes exactly one draw).  Every program is monotone in each of its roundings
(rounding any intermediate away from zero moves the final result away from
zero), which is what lets the check bound the result by the all-RTZ and the
all-RAZ evaluation: no subtraction of a rounded quantity, no sign change after
the first rounding.
"""
import fpy2 as fp


@fp.fpy
def chain3(x: fp.Real, y: fp.Real) -> fp.Real:
    a = x * y
    b = a + x
    c = b / y
    return c


@fp.fpy
def loop4(x: fp.Real, y: fp.Real) -> fp.Real:
    acc = x
    for _i in range(4):
        acc = acc * y + x
    return acc


@fp.fpy
def root2(x: fp.Real, y: fp.Real) -> fp.Real:
    s = fp.sqrt(x + y)
    t = s / 3
    return t + x


@fp.fpy
def listy(x: fp.Real, y: fp.Real) -> fp.Real:
    xs = [x, y, x]
    r = 0
    for v in xs:
        r = r + v / 7
    return r


@fp.fpy
def lits(x: fp.Real, y: fp.Real) -> fp.Real:
    # operations whose operands are all literals are rounded operations like any other
    a = 1 / 3
    b = x + a
    c = fp.sqrt(2) * y
    acc = b + c
    for _i in range(2):
        acc = acc + 1 / 3
    return acc


@fp.fpy
def aug(x: fp.Real, y: fp.Real) -> fp.Real:
    acc = x
    acc += y
    acc *= y
    acc += x / 16
    acc /= y
    return acc


@fp.fpy
def negabs(x: fp.Real, y: fp.Real) -> fp.Real:
    # negation and absolute value are operations like any other: rounded, one draw each
    a = x * y
    b = -a
    c = abs(b)
    return c + x


@fp.fpy
def fused(x: fp.Real, y: fp.Real) -> fp.Real:
    a = fp.fma(x, y, x)
    return a + y


@fp.fpy
def casts(x: fp.Real, y: fp.Real) -> fp.Real:
    # an explicit rounding of a rounded operation: two roundings, two draws
    a = fp.round(x * y)
    return fp.round(a) + x


@fp.fpy
def exacts(x: fp.Real, y: fp.Real) -> fp.Real:
    # an exact rounding of a value the context holds is a rounding like any other: it comes back
    # unchanged and costs one draw
    a = x * y
    b = fp.round_exact(a)
    return fp.round_exact(b) + x


@fp.fpy
def _plus1(v: fp.Real) -> fp.Real:
    return v + 1


@fp.fpy
def callee(x: fp.Real, y: fp.Real) -> fp.Real:
    # the argument is handed over as it is; the callee's operation is rounded under the same context
    a = _plus1(x * y)
    return a / y


@fp.fpy
def consts(x: fp.Real, y: fp.Real) -> fp.Real:
    # a library constant is rounded under the context like the result of any operation: one draw each time
    a = fp.const_pi() * x
    for _i in range(2):
        a = a + fp.const_e()
    return a / y


def make_withblk(C):
    @fp.fpy
    def withblk(x: fp.Real, y: fp.Real) -> fp.Real:
        with C:
            a = 1 / 3          # all-literal operation: rounded, with a draw, at every evaluation
            b = x * y + a
        return b
    return withblk


def make_withneg(C):
    @fp.fpy
    def withneg(x: fp.Real, y: fp.Real) -> fp.Real:
        with C:
            a = x / y
            with C:
                b = -a - 0.1      # (stays negative: every rounding moves the result the same way)
        return b
    return withneg


# name -> number of rounded operations per evaluation
PROGS = {'chain3': 3, 'loop4': 8, 'root2': 4, 'listy': 6, 'lits': 9, 'aug': 5, 'negabs': 4, 'fused': 2, 'casts': 4,
         'callee': 3, 'exacts': 4, 'withblk': 3, 'withneg': 3, 'consts': 7}
# programs made per context by a factory (the stochastic context is the `with` context of the program itself;
# the caller's context is a deterministic one): name -> maker
MAKERS = {'withblk': make_withblk, 'withneg': make_withneg}
