"""
Whole FPy programs evaluated under a stochastic context (C17, program route).
Each lists how many rounded operations one evaluation performs for positive
arguments (every intermediate is then finite and non-zero, so each rounding
consumes exactly one draw).
"""
import fpy2 as fp


@fp.fpy
def chain3(x: fp.Real, y: fp.Real) -> fp.Real:
    a = x * y
    b = a + x
    c = b / y
    return c


@fp.fpy
def loop4(x: fp.Real, y: fp.Real) -> fp.Real:
    acc = x
    for _i in range(4):
        acc = acc * y + x
    return acc


@fp.fpy
def root2(x: fp.Real, y: fp.Real) -> fp.Real:
    s = fp.sqrt(x + y)
    t = s / 3
    return t + x


@fp.fpy
def listy(x: fp.Real, y: fp.Real) -> fp.Real:
    xs = [x, y, x]
    r = 0
    for v in xs:
        r = r + v / 7
    return r


@fp.fpy
def lits(x: fp.Real, y: fp.Real) -> fp.Real:
    # operations whose operands are all literals are rounded operations like any other
    a = 1 / 3
    b = x + a
    c = fp.sqrt(2) * y
    acc = b + c
    for _i in range(2):
        acc = acc + 1 / 3
    return acc


# name -> number of rounded operations per evaluation
PROGS = {'chain3': 3, 'loop4': 8, 'root2': 4, 'listy': 6, 'lits': 9}
