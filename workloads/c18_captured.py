"""
Captured mutable state (finding F2): functions that write, or return, a list
captured from the enclosing Python scope.  Kept in their own sub-batch so the
rest of the workload is not polluted by a known leak.
"""
import fpy2 as fp

TBL = [1.0, 2.0, 3.0]
TBL2 = [10.0, 20.0]
ROWS = [[1.0, 2.0], [3.0, 4.0]]


@fp.fpy
def bump(x: fp.Real) -> fp.Real:
    with fp.FP64:
        TBL[0] = TBL[0] + x
    return TBL[0]


@fp.fpy
def bump_alias(x: fp.Real) -> fp.Real:
    ys = TBL2
    with fp.FP64:
        ys[1] = ys[1] + x
    return ys[1]


@fp.fpy
def ret_tbl(x: fp.Real) -> list[fp.Real]:
    return ROWS[0]


@fp.fpy
def read_tbl(x: fp.Real) -> fp.Real:
    with fp.FP64:
        return ROWS[0][0] + ROWS[1][1] + x


@fp.fpy
def pure_cap(x: fp.Real) -> fp.Real:
    with fp.FP32:
        s = 0
        for t in TBL2:
            s = s + t * x
    return s


SIG = {
    'bump': ['num'],
    'bump_alias': ['num'],
    'ret_tbl': ['num'],
    'read_tbl': ['num'],
    'pure_cap': ['num'],
}

DERIVABLE = {
    'pure_cap': [('close', {}), ('simplify', {})],
}
