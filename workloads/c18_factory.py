"""
Functions defined repeatedly by one piece of Python code while a captured
variable is rebound (a loop variable held in one closure cell): every
definition has the same name and the same text, and each is evaluated for the
first time while the cell holds its own value.  Each must compute with the value
the cell held then, whatever was defined and evaluated before it -- which a
fresh process confirms through the `one_*` twins.
"""
import fpy2 as fp

CTXS = {
    'FP16': fp.FP16,
    'FP32': fp.FP32,
    'FP64': fp.FP64,
    'RTZ16': fp.IEEEContext(5, 16, fp.RM.RTZ),
    'RTP16': fp.IEEEContext(5, 16, fp.RM.RTP),
}


def make_scaled(vals, x, ctx):
    out = []
    for S in vals:
        @fp.fpy
        def scaled(x: fp.Real) -> fp.Real:
            with fp.FP32:
                return x * S + 1
        # evaluated while the cell holds this S (the caller rebinds it afterwards, so a later
        # call through another interpreter would legitimately see the new value)
        out.append(scaled(x, ctx=ctx))
    return out


def one_scaled(v):
    S = v

    @fp.fpy
    def scaled(x: fp.Real) -> fp.Real:
        with fp.FP32:
            return x * S + 1
    return scaled


def make_third(names, x, ctx):
    out = []
    for name in names:
        C = CTXS[name]

        @fp.fpy
        def third(x: fp.Real) -> fp.Real:
            with C:
                y = x / 3
            return y
        out.append(third(x, ctx=ctx))
    return out


def one_third(name):
    C = CTXS[name]

    @fp.fpy
    def third(x: fp.Real) -> fp.Real:
        with C:
            y = x / 3
        return y
    return third


SIG = {}
DERIVABLE = {}
FACTORIES = {
    'scaled': ('make_scaled', 'one_scaled', [2.0, 3.0, 0.5, 7.0, 1.25]),
    'third': ('make_third', 'one_third', ['FP16', 'FP32', 'FP64', 'RTZ16', 'RTP16']),
}
