"""
Functions defined repeatedly by one piece of Python code while a captured
variable is rebound (a loop variable held in one closure cell): every
definition has the same name and the same text, and each is evaluated for the
first time while the cell holds its own value.  Each must compute with the value
the cell held then, whatever was defined and evaluated before it -- which a
fresh process confirms through the `one_*` twins.
"""
import gc

import fpy2 as fp

CTXS = {
    'FP16': fp.FP16,
    'FP32': fp.FP32,
    'FP64': fp.FP64,
    'RTZ16': fp.IEEEContext(5, 16, fp.RM.RTZ),
    'RTP16': fp.IEEEContext(5, 16, fp.RM.RTP),
}


def make_scaled(vals, x, ctx):
    out = []
    for S in vals:
        @fp.fpy
        def scaled(x: fp.Real) -> fp.Real:
            with fp.FP32:
                return x * S + 1
        # evaluated while the cell holds this S (the caller rebinds it afterwards, so a later
        # call through another interpreter would legitimately see the new value)
        out.append(scaled(x, ctx=ctx))
    return out


def one_scaled(v):
    S = v

    @fp.fpy
    def scaled(x: fp.Real) -> fp.Real:
        with fp.FP32:
            return x * S + 1
    return scaled


def make_third(names, x, ctx):
    out = []
    for name in names:
        C = CTXS[name]

        @fp.fpy
        def third(x: fp.Real) -> fp.Real:
            with C:
                y = x / 3
            return y
        out.append(third(x, ctx=ctx))
    return out


def one_third(name):
    C = CTXS[name]

    @fp.fpy
    def third(x: fp.Real) -> fp.Real:
        with C:
            y = x / 3
        return y
    return third


def make_scaled_rt(vals, x, ctx):
    # the same, but every definition is evaluated through an interpreter of its own that is dropped
    # with it: nothing keeps the definition alive, so the next one may well reuse its address
    out = []
    for i, S in enumerate(vals):
        @fp.fpy
        def scaled(x: fp.Real) -> fp.Real:
            with fp.FP32:
                return x * S + 1
        if i % 2 == 0:
            out.append(scaled.with_rt(fp.BytecodeInterpreter())(x, ctx=ctx))
        else:
            out.append(scaled(x, ctx=ctx))
        del scaled
        gc.collect()
    return out


def make_third_rt(names, x, ctx):
    out = []
    for name in names:
        C = CTXS[name]

        @fp.fpy
        def third(x: fp.Real) -> fp.Real:
            with C:
                y = x / 3
            return y
        rt = fp.BytecodeInterpreter()
        out.append(third.with_rt(rt)(x, ctx=ctx))
        del third, rt
        gc.collect()
    return out


def make_poly_rt(coeffs, x, ctx):
    # different texts of the same size, one after the other, each on a throw-away interpreter
    out = []
    for k in coeffs:
        if k > 1:
            @fp.fpy
            def term(x: fp.Real) -> fp.Real:
                with fp.FP32:
                    return x * k - 2
        else:
            @fp.fpy
            def term(x: fp.Real) -> fp.Real:
                with fp.FP32:
                    return x + k * 4
        out.append(term.with_rt(fp.BytecodeInterpreter())(x, ctx=ctx))
        del term
        gc.collect()
    return out


def one_poly(v):
    k = v
    if k > 1:
        @fp.fpy
        def term(x: fp.Real) -> fp.Real:
            with fp.FP32:
                return x * k - 2
    else:
        @fp.fpy
        def term(x: fp.Real) -> fp.Real:
            with fp.FP32:
                return x + k * 4
    return term


def _mk_gain(k):
    @fp.fpy
    def gain(x: fp.Real) -> fp.Real:
        with fp.FP32:
            return k * x + 1
    return gain


def _mk_shift(k):
    @fp.fpy
    def shift(x: fp.Real) -> fp.Real:
        with fp.FP32:
            return x - k * 3
    return shift


def make_gain_fn(vals, x, ctx):
    # closures from a factory function, each evaluated on an interpreter of its own and dropped with it
    out = []
    for k in vals:
        f = _mk_gain(k).with_rt(fp.BytecodeInterpreter())
        out.append(f(x, ctx=ctx))
        del f
        gc.collect()
    return out


def one_gain(v):
    return _mk_gain(v)


def _mk_plain(k):
    @fp.fpy
    def plain(x: fp.Real) -> fp.Real:
        return k * x
    return plain


def make_plain_fn(vals, x, ctx):
    # whether a freed definition's address is taken by the next one depends on what is allocated in
    # between: this variant computes under the caller's context and goes round twice
    out = []
    for k in list(vals) + list(vals):
        f = _mk_plain(k).with_rt(fp.BytecodeInterpreter())
        out.append(f(x, ctx=ctx))
        del f
        gc.collect()
    return out[len(vals):]


def one_plain(v):
    return _mk_plain(v)


def make_mixed_fn(vals, x, ctx):
    # a closure evaluated on a private interpreter and dropped, then a *different* one on the default interpreter
    out = []
    for k in vals:
        if k in (2.0, 0.5, 1.25):
            f = _mk_gain(k).with_rt(fp.BytecodeInterpreter())
        else:
            f = _mk_shift(k)
        out.append(f(x, ctx=ctx))
        del f
        gc.collect()
    return out


def one_mixed(v):
    return _mk_gain(v) if v in (2.0, 0.5, 1.25) else _mk_shift(v)


SIG = {}
DERIVABLE = {}
FACTORIES = {
    'scaled': ('make_scaled', 'one_scaled', [2.0, 3.0, 0.5, 7.0, 1.25]),
    'third': ('make_third', 'one_third', ['FP16', 'FP32', 'FP64', 'RTZ16', 'RTP16']),
    'scaled_rt': ('make_scaled_rt', 'one_scaled', [2.0, 3.0, 0.5, 7.0, 1.25]),
    'third_rt': ('make_third_rt', 'one_third', ['FP16', 'FP32', 'FP64', 'RTZ16', 'RTP16']),
    'poly_rt': ('make_poly_rt', 'one_poly', [2.0, 0.5, 3.0, 0.25, 5.0]),
    'gain_fn': ('make_gain_fn', 'one_gain', [2.0, 3.0, 0.5, 7.0, 1.25]),
    'plain_fn': ('make_plain_fn', 'one_plain', [2.0, 3.0, 0.5, 7.0, 1.25]),
    'mixed_fn': ('make_mixed_fn', 'one_mixed', [2.0, 3.0, 0.5, 7.0, 1.25]),
}
