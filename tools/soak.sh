#!/bin/bash
# usage: tools/soak.sh <prop> <first seed> <last seed> <budget per seed>
# Runs the check under many base seeds against an isolated snapshot of the repository when
# $VP_RUN_REPO is set (vp run --with-repo), else against /repo.  Prints one line per seed.
prop="$1"; a="$2"; b="$3"; budget="${4:-60}"
[ -n "${VP_RUN_REPO:-}" ] && export VERIF_REPO="$VP_RUN_REPO"
export VERIF_EVIDENCE_DIR="${VERIF_EVIDENCE_DIR:-$(cd "$(dirname "$0")/.." && pwd)/.cache/evidence-scratch}"
for s in $(seq "$a" "$b"); do
  out=$(VERIF_SEED=$s VERIF_BUDGET_S=$budget ./run "$prop" --tier quick 2>&1)
  code=$?
  echo "seed=$s exit=$code $(echo "$out" | tail -1)"
  if [ $code -ne 0 ]; then echo "$out" | grep -v "^KNOWN" | head -30; fi
done
