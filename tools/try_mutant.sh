#!/bin/bash
# usage: tools/try_mutant.sh <patch.diff> <C17|C18|C19> [budget_s] [tier]
# Applies a seeded change to /repo, runs the check, and ALWAYS restores /repo.
set -u
here="$(cd "$(dirname "$(readlink -f "$0")")/.." && pwd)"; patch="$(readlink -f "$1")"; prop="$2"; budget="${3:-60}"; tier="${4:-quick}"
cd /repo || exit 9
if [ -n "$(git status --porcelain --untracked-files=no)" ]; then echo "repo not clean"; exit 9; fi
trap 'git -C /repo checkout -- . ; echo "[repo restored: $(git -C /repo status --porcelain --untracked-files=no | wc -l) modified]"' EXIT
git apply "$patch" || { echo "patch does not apply"; exit 8; }
export VERIF_EVIDENCE_DIR="${VERIF_EVIDENCE_DIR:-$here/.cache/evidence-scratch}"
cd /verif
VERIF_BUDGET_S="$budget" ./run "$prop" --tier "$tier" 2>&1 | grep -v "^KNOWN-FINDING" | cut -c1-400 | tail -12
echo "check exit=${PIPESTATUS[0]}"
