#!/usr/bin/env python3
"""Adds the 'needs' / 'caught_by' / 'checks_run' fields to /verif/seeded/<id>/meta.json."""
import json, os
T = {
 'c17a': ('operand within half a unit of 2^-k above its lower neighbour (so the k-digit pre-rounding drops onto it)', 'C17 count-mismatch'),
 'c17b': ('random source handed to an EFloatContext through with_params(rng=...) with nothing else changed', 'C17 draw-count / replaced-source-still-used (needed the build-route dimension)'),
 'c17c': ('bounded fixed-point family (MPBFixed/Fixed/SMFixed), representable operand stored with exp > n', 'C17 draw-count'),
 'c17d': ('an FPy operation whose operands are all literals, evaluated at least twice under equal-parameter stochastic contexts', 'C17 program-draw-count (needed the lits program)'),
 'c18a': ('two threads inside MPFR-backed operations of different precision, pre-empted between `ctx.precision = prec` and `with ctx`', 'C18 A3/H1 wrong value, exc:SystemError vs reference'),
 'c18b': ('a function redefined with the same name and text after its captured variable was rebound (loop/closure cell), earlier definition already evaluated', 'C18 A3 on factory ops (needed workloads/c18_factory.py)'),
 'c18c': ('argument that is or contains a tuple holding a list, every leaf already a Float/Fraction', 'C18 A1/A2 on deep / ident_pair (needed homogeneous argument representations)'),
 'c18d': ('an evaluation that raises below a call made by the program under a non-default context, then a default-context call in the same thread', 'C18 A3/H1 (needed calls_failing/via_picky and failure-mix runs)'),
 'c18e': ('the same non-dyadic literal rounded first under a float context with a subnormal bound, then under a finer fixed-point context', 'C18 A3/H1 on tenth (needed context-sweep runs and the FXM/FXF contexts)'),
 'c18f': ('inline() of a caller whose callee lives in another scope (closure free variable), then the original compiled afresh', 'C18 A3/H1/H2 on uses_closure (needed that workload)'),
 'c19a': ('one pass whose edit log reads: edit in block B, edit in a block nested under B, edit in B; cursor after the first site', 'C19 forward-unrelated'),
 'c19b': ('unroll_while aimed by index at a loop that contains another while loop', 'C19 nested-site-also-rewritten (needed that check)'),
 'c19c': ('a for loop nested inside a loop that STRICT refuses (static trip count not a multiple)', 'C19 candidate-neither-site-nor-refusal (needed nest_trip and listing with strategy parameters)'),
 'c19d': ('a statement rewrite rule whose right-hand side re-matches its left-hand side, applied with repeat >= 2, and a cursor after the window', 'C19 edit-log-miscounts / forward-unrelated (needed the peel rule and the edit-log arithmetic check)'),
 'c19e': ('a cursor of one branch of the derivation tree (or of a descendant) used on a sibling branch / the root', 'C19 forward-across-unrelated'),
 'c17e': ('IEEE/EFloat/MPBFloat stochastic context, value arriving through an inexact operation (div, sqrt, ...) or a non-dyadic Fraction, typically k >= 2', 'C17 count-mismatch on op_* / Fraction routes'),
 'c17f': ('negative operand under base mode RTP or RTN whose distance past the lower neighbour is not a multiple of 2^-k of the gap', 'C17 count-mismatch'),
 'c18g': ('thread A held between the two stores of its first compile of a pinned-context function on the shared interpreter, thread B making its first call of that function in the window', 'C18 A3/H1 (needed hold-back scheduling, pinned-context workloads)'),
 'c18h': ('a Float argument (or its exact negation) explicitly rounded by the program under a bounded format it overflows', 'C18 A1-argument-modified (needed narrow* workloads and large Float arguments)'),
 'c19f': ('inline of a call sitting in the header of a compound statement (if condition, for iterable), and an expression cursor into that header', 'C19 forward-expr-unrelated (needed expression cursors into headers and calls in headers)'),
 'c19g': ('one pass (region aim / where=None) rewriting a site nested under an earlier sibling statement and then a later site of the outer block', 'C19 edit-log-miscounts'),
 'c17g': ('a numpy-style random source (anything with .integers) on any family', 'C17 source-misused / source-kind-dependence'),
 'c18i': ('an evaluation dispatching an operation while another thread is inside register_engine (during its sort)', 'C18 A3 exc:NotImplementedError vs reference (needed pre-emptible, serialised engine registration)'),
 'c18j': ('an evaluation interrupted between the two stores of the per-thread MPFR context memo, then an MPFR operation at the same precision in that thread', 'C18 A3 (needed cancels placed inside small critical functions and retry-after-cancel; probabilistic in the quick tier)'),
 'c18k': ('Python -> FPy function -> primitive whose Python body calls an FPy function on a Python-owned list of FPy numbers, and that function writes its parameter', 'C18 A3/H1 on use_table (needed that workload)'),
 'c19h': ('a rounding block beneath the body of an else-less if (If1Stmt)', 'C19 rewrite-outside-named-site / candidate-neither-site-nor-refusal'),
 'c19i': ('split with a remainder on a loop of static length whose body holds a site two blocks deep, then an aimed inline/unroll_for', 'C19 edit-log-miscounts (needed the static_nest root and chained rewrites)'),
 'c17h': ('a context with num_randbits=None and an operand whose lost part has leading zeros below the rounding position', 'C17 none-not-all-bits'),
 'c17i': ('ops.add/sub/mul (or + - * in a program) on integer-valued operands with a representable result under a stochastic context', 'C17 draw-count on the op_* routes'),
 'c18l': ("the calling thread's own gmpy2 context changed earlier (application code or a primitive's Python body), then an MPFR-backed operation on double-sized operands", 'C18 A3/H1 (needed the ambient fault, which also found F3 on the unchanged tree)'),
 'c19j': ('an indexed assignment with a site in a subscript and a site in the stored value, expression-sited strategy aimed by index', 'C19 index-and-listed-site-differ (needed the roots stores_a / ir_b and the index-versus-listed-site check)'),
 'c19k': ("inline of a call in a compound statement's header while other sites lie beneath it", 'C19 edit-log-miscounts on calls_c'),
 'c17j': ('a stochastic context of a family with a minimum exponent and an unrepresentable operand below 2^emin', 'C17 count-mismatch (subnormal / zero_gap positions)'),
 'c18m': ('a tuple argument whose leaves are all FPy values and which holds a list the function writes or returns', 'C18 A1/A2 on deep (as c18c; needed the boundary sweep to be reliable)'),
 'c18n': ('a copy derived by an expression rewrite rule (no statement edit reported), evaluated after its source in the same interpreter', 'C18 H1/A3 on muladd (needed rewrite-rule derivations and the derive run shape)'),
 'c19l': ('unroll_for STRICT, a refused loop before an accepted one, where an integer', 'C19 bad-where-accepted / rewrite-outside-named-site'),
 'c19m': ('a region ending right before a statement whose call inline expands (pure insertion exactly at the region end)', 'C19 forward-unrelated by rule (d): untouched, un-aimed statements are named exactly by their images'),
 'c17k': ('an IEEE/EFloat context obtained through with_params(rng=...) that keeps the format', 'C17 draw-count on the with_rng build route'),
 'c19n': ('an expression rule with one match nested inside a binding of another, where=None', 'C19 listed-site-not-rewritten (needed the root rw_c and the expression-granular where=None check)'),
 'c19o': ('split PEEL on a loop of static length below the factor, cursor into the loop body', 'C19 edit-log-miscounts'),
 'c18o': ("a second thread's first compile while the first thread is still inside make_namespace()'s first fill", 'C18 A3/H1 (exc:NameError) in stampede / derive runs'),
 'c18p': ('an evaluation that failed below a call earlier in the process (or two threads inside the same callee), then a nested call of that callee', 'C18 A3/H1 (exc:RuntimeError) in failure-mix and multi-thread runs'),
 'c17l': ('k > 32 random bits (explicit, or num_randbits=None with a long lost part)', 'C17 draw-count'),
 'c19p': ('one pass with two edits in a block of more than ten statements, one at a one-digit and one at a two-digit position', 'C19 forward-unrelated on long_block (needed that root)'),
 'c19q': ('lift_context on a program that writes the same context expression at two places', 'C19 forward-unrelated / edit-log-miscounts (needed the root rounds_c and the checks on whole-program passes that report edits)'),
 'c18q': ('two threads rounding non-dyadic operands under the same module-level context object (or a cancellation between the two stores of the memo)', 'C18 H1/A3'),
 'c18r': ("a definition evaluated only on a throw-away interpreter, freed, its address taken by a different definition", 'C18 A3 on make_plain_fn (needed factory-function definitions on throw-away interpreters; allocator-dependent)'),
 'c17m': ('a bounded fixed-point context with random bits and an operand in the open gap just past a bound', 'C17 draw-count at the top_gap positions'),
 'c18s': ('the same library constant first under p digits, then under p+1 or p+2 digits', 'C18 A3 on consts (needed constant-using workloads and the MP12/MP25 contexts)'),
 'c18t': ('inline of a callee with a free variable from another scope, then the source compiled afresh', 'C18 H1/A3/H2 on uses_closure'),
 'c19r': ('a candidate call inside the argument of another candidate call, aimed at by index', 'C19 index-and-listed-site-differ'),
 'c19s': ('an empty region of the listed program as within=', 'C19 within-not-the-sites-at-or-beneath (needed empty regions as within= and as aims)'),
 'c19u': ("a call inlined out of a compound statement's header and an expression cursor into that header", 'C19 forward-expr-unrelated'),
 'c17n': ('a program evaluating a library constant under a stochastic context more than once', 'C17 program-draw-count (needed the consts program)'),
 'c18w': ('an evaluation failing inside a nested FPy-to-FPy call, then a program reaching that callee through a nested call on the same thread', 'C18 A3 (exc:RuntimeError) in failure-mix runs'),
 'c19t': ('a cursor of a sibling branch / a descendant / from beyond an opaque pass handed to forward', 'C19 forward-across-unrelated'),
 'c18u': ('the same non-zero value passed as int and as float in one process, the later one reaching a result without arithmetic', 'C18 A3m (needed the comparison of whole results: representation, flags, context)'),
 'c17o': ('an EFloat context with eoffset > 0 and an operand in the top eoffset binades', 'C17 count-mismatch at the top_binade / top-gap positions'),
 'c18x': ('the same library constant under two contexts of one format with different rounding modes', 'C18 A3 on circle / consts'),
 'c19v': ("split with a factor given by the name of a variable, cursor on a statement after the loop", 'C19 edit-log-miscounts / forward-unrelated (needed variable factors among the generated parameters)'),
 'c19w': ('insert_round aimed by a statement cursor or region holding a refused operation and listed sites', 'C19 cursor-naming-sites-rejected (needed that rule)'),
 'c17p': ('a fixed-point context with random bits, the round_at / round_integer route, a non-dyadic Fraction or decimal-string operand', 'C17 count-mismatch on the round_at route'),
 'c18y': ('a display of literals containing a nested list that the program writes, evaluated twice', 'C18 H1/A3 on tally / fill (needed those workloads)'),
 'c18z': ('two threads on the MPFR exponent-probe path at once (fixed-point contexts, %, floor of a rational)', 'C18 A3 (exc:SystemError)'),
 'c19x': ('unroll_for PEEL, outer loop of static length with a leftover and a loop nested in it, where=None', 'C19 all-sites-differs-from-one-at-a-time (needed that rule)'),
 'c19y': ('a within= cursor inside one arm of an if/else with a candidate at the same indices of the other arm', 'C19 within-not-the-sites-at-or-beneath'),
 'c17q': ('an operand of more than 1024 significant digits with digits far below the rounding position, k >= 2', 'C17 count-mismatch (needed the long_tail offsets)'),
 'c18v': ('a callee that writes its list parameter only through an alias / projected row / loop variable, called with a list whose leaves are all FPy values', 'C18 A1-argument-modified on deep'),
 'c18aa': ('two threads compiling at the same moment two derived programs that embed different values under the same generated name', 'C18 A3/A3m/H1 on derived copies of q_a16 / q_b8 (needed the twins and the derive stampede; about one derive stampede in twelve: thorough tier)'),
 'c19z': ('unroll_while on a loop whose condition holds a call or rule match, then an expression-sited listing or aim', 'C19 rewrite-outside-named-site / site-also-refused'),
 'c19aa': ('a call of an FPy function inside an arm of a conditional expression', 'C19 candidate-neither-site-nor-refusal (needed the root exprs_a and an independent enumeration of calls)'),
}
base = os.path.join(os.path.dirname(os.path.dirname(os.path.abspath(__file__))), 'seeded')
for mid, (needs, caught) in T.items():
    p = os.path.join(base, mid, 'meta.json')
    if not os.path.exists(p):
        continue
    m = json.load(open(p))
    m['breaks_property'] = m.get('property')
    m['needs_to_manifest'] = needs
    m['caught_by'] = caught
    m['check_run_against_it'] = f"tools/try_mutant.sh seeded/{mid}/patch.diff {m.get('property')} (git -C /repo apply, ./run {m.get('property')} --tier quick, git -C /repo checkout -- .): exit 1 with the violation class above"
    json.dump(m, open(p, 'w'), indent=1)
    print('updated', mid)
