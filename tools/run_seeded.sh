#!/bin/bash
# usage: tools/run_seeded.sh [budget_s] [ids...]
# Applies every seeded change in turn to the repository under test ($VERIF_REPO, default /repo; under
# `vp run --with-repo` the snapshot in $VP_RUN_REPO), runs the check of the property it breaks, restores the
# tree, and prints one line per change: caught (exit 1 with a VIOLATION line) or MISSED.
budget="${1:-90}"; shift
[ -n "${VP_RUN_REPO:-}" ] && export VERIF_REPO="$VP_RUN_REPO"
repo="${VERIF_REPO:-/repo}"
cd "$(dirname "$0")/.."
ids="$@"; [ -z "$ids" ] && ids=$(ls seeded)
export VERIF_EVIDENCE_DIR="${VERIF_EVIDENCE_DIR:-$(cd "$(dirname "$0")/.." && pwd)/.cache/evidence-scratch}"
for id in $ids; do
  prop=$(python3 -c "import json;print(json.load(open('seeded/$id/meta.json'))['property'])")
  if [ -n "$(git -C "$repo" status --porcelain --untracked-files=no)" ]; then echo "$id: repository not clean"; exit 9; fi
  git -C "$repo" apply "$PWD/seeded/$id/patch.diff" || { echo "$id: patch does not apply"; continue; }
  out=$(VERIF_BUDGET_S=$budget ./run "$prop" --tier quick 2>&1); code=$?
  git -C "$repo" checkout -- .
  cls=$(echo "$out" | grep -m1 "class=" | sed 's/.*class=\([^ ]*\).*/\1/')
  if [ $code -eq 1 ]; then echo "$id $prop caught ($cls)"; else echo "$id $prop MISSED (exit $code) $(echo "$out" | tail -1)"; fi
done
