#!/bin/bash
# usage: tools/confirm_mutant.sh <worktree with patch applied and _mutant/> <id> <property>
# Confirms independently: the demo fails with the change and passes without it, and the pinned
# test suite still passes with the change.  Then files it under /verif/seeded/<id>/.
# (No `git stash`: the stash is shared by all worktrees of a repository.)
set -u
wt="$1"; id="$2"; prop="$3"
cd "$wt" || exit 9
export PYTHONPATH="$wt"
p="$wt/_mutant/patch.diff"
git diff > /tmp/confirm_$id.patch
if ! diff -q /tmp/confirm_$id.patch "$p" >/dev/null; then echo "worktree differs from patch.diff"; exit 8; fi
/venv/bin/python _mutant/demo.py > /tmp/confirm_$id.demo_with.txt 2>&1; with=$?
git apply -R "$p" || exit 7
/venv/bin/python _mutant/demo.py > /tmp/confirm_$id.demo_without.txt 2>&1; without=$?
git apply "$p" || exit 7
echo "$id demo exit with=$with without=$without"
/venv/bin/python -m pytest -q -p no:cacheprovider --timeout=900 --continue-on-collection-errors -n 6 2>&1 | tail -6 > /tmp/confirm_$id.tests.txt
fails=$(grep -c "^FAILED" /tmp/confirm_$id.tests.txt)
if [ "$fails" != "0" ]; then
  # hypothesis health checks flake under load: re-run just the failures, serially
  grep "^FAILED" /tmp/confirm_$id.tests.txt | sed 's/^FAILED //; s/ - .*//' > /tmp/confirm_$id.failed.txt
  /venv/bin/python -m pytest -q -p no:cacheprovider --timeout=900 $(cat /tmp/confirm_$id.failed.txt) 2>&1 | tail -3 >> /tmp/confirm_$id.tests.txt
fi
tail -2 /tmp/confirm_$id.tests.txt
mkdir -p /verif/seeded/$id
cp "$p" /verif/seeded/$id/patch.diff
cp _mutant/demo.py /verif/seeded/$id/demo.py
cp _mutant/notes.md /verif/seeded/$id/notes.md 2>/dev/null
python3 - <<P
import json
lines=open('/tmp/confirm_$id.tests.txt').read().strip().splitlines()
json.dump({"id":"$id","property":"$prop","demo_exit_with_change":$with,"demo_exit_without_change":$without,
 "tests_with_change":lines[-4:],
 "confirmed_in":"scratch worktree $wt (fpy2 imported from the worktree via PYTHONPATH)",
 "ran":["python _mutant/demo.py with the change, then after git apply -R, then re-applied","pytest -q -p no:cacheprovider --timeout=900 --continue-on-collection-errors -n 6 (whole suite, with the change); failures re-run serially"]},
 open('/verif/seeded/$id/meta.json','w'),indent=1)
P
