import argparse
import os
import sys

HERE = os.path.dirname(os.path.abspath(__file__))
sys.path.insert(0, HERE)

from sim import core  # noqa: E402


def main():
    core.ensure_env()
    ap = argparse.ArgumentParser()
    ap.add_argument('what')
    ap.add_argument('--tier', default=os.environ.get('VERIF_TIER', 'quick'), choices=['quick', 'thorough'])
    ap.add_argument('--replay', default=None)
    ap.add_argument('rest', nargs='*')
    a = ap.parse_args()
    import importlib
    if a.what == 'selftest':
        mod = importlib.import_module('checks.selftest')
        sys.exit(mod.main(a.rest))
    mod = importlib.import_module('checks.' + a.what.lower())
    if a.replay:
        sys.exit(mod.replay(a.replay))
    try:
        code = mod.main(a.tier)
    except SystemExit:
        raise
    except BaseException:
        import traceback
        traceback.print_exc()
        code = core.EXIT_HARNESS
    sys.exit(code)


if __name__ == '__main__':
    main()
