"""
Value snapshots for C18: building arguments from JSON specs, deep snapshots of
arguments (identity + observable fields), denoted values of results, and the
list-identity graph used for the "no shared mutable structure" check.
"""

from __future__ import annotations

from fractions import Fraction


def build_arg(spec, memo: dict):
    """
    spec:
      ["i", 3]                int
      ["f", "0x1.8p+0"]       float (hex)
      ["q", "1/3"]            Fraction
      ["F", "3/4"]            Float (exact, no context);  "nan" / "inf" / "-inf" / "-0" allowed
      ["Fr", "1/3", "FP16"]   Float obtained by rounding under a standard context (has ctx and flags)
      ["R", "5/4"]            RealFloat
      ["b", true]             bool
      ["L", id, [items]]      list (id names it for aliasing)
      ["A", id]               the list built earlier under that id (aliasing inside one argument tuple)
      ["T", [items]]          tuple
    """
    import fpy2 as fp
    from fpy2.number import Float, RealFloat
    k = spec[0]
    if k == 'i':
        return int(spec[1])
    if k == 'f':
        return float.fromhex(spec[1])
    if k == 'q':
        return Fraction(spec[1])
    if k == 'b':
        return bool(spec[1])
    if k == 'F':
        v = spec[1]
        if v == 'nan':
            return Float(isnan=True)
        if v == 'inf':
            return Float(isinf=True)
        if v == '-inf':
            return Float(s=True, isinf=True)
        if v == '-0':
            return Float(s=True, c=0, exp=0)
        return Float.from_rational(Fraction(v))
    if k == 'Fr':
        ctx = getattr(fp, spec[2])
        return ctx.round(Fraction(spec[1]))
    if k == 'R':
        q = Fraction(spec[1])
        r = RealFloat.from_rational(abs(q))
        return RealFloat(s=True, x=r) if q < 0 else r
    if k == 'L':
        lst: list = []
        memo[spec[1]] = lst
        for it in spec[2]:
            lst.append(build_arg(it, memo))
        return lst
    if k == 'A':
        return memo[spec[1]]
    if k == 'T':
        return tuple(build_arg(it, memo) for it in spec[1])
    raise ValueError(spec)


def snap_deep(obj):
    """
    Deep snapshot of an argument: container identities, lengths, element
    identities, and for every number its observable fields.  Two snapshots
    taken in the same process compare equal iff nothing observable changed.
    """
    from fpy2.number import Float, RealFloat
    if isinstance(obj, bool):
        return ('b', obj)
    if isinstance(obj, list):
        return ('L', id(obj), tuple((id(x), snap_deep(x)) for x in obj))
    if isinstance(obj, tuple):
        return ('T', id(obj), tuple((id(x), snap_deep(x)) for x in obj))
    if isinstance(obj, Float):
        return ('F', bool(obj.s), obj.exp, obj.c, bool(obj.isinf), bool(obj.isnan),
                (bool(obj.invalid), bool(obj.divzero), bool(obj.overflow), bool(obj.tiny_pre),
                 bool(obj.tiny_post), bool(obj.inexact), bool(obj.carry)), id(obj.ctx))
    if isinstance(obj, RealFloat):
        return ('R', bool(obj.s), obj.exp, obj.c)
    if isinstance(obj, Fraction):
        return ('q', obj.numerator, obj.denominator)
    if isinstance(obj, int):
        return ('i', obj)
    if isinstance(obj, float):
        return ('f', obj.hex())
    return ('?', repr(type(obj)))


def denote(v):
    """
    The denoted value of a result: shape, booleans, and for each number NaN /
    +-inf / exact rational value with the sign of zero.  Representation
    (exp, c of equal values), flags and ctx are deliberately not included.
    """
    from fpy2.number import Float, RealFloat, Context
    if isinstance(v, bool):
        return ['b', v]
    if isinstance(v, list):
        return ['L', [denote(x) for x in v]]
    if isinstance(v, tuple):
        return ['T', [denote(x) for x in v]]
    if isinstance(v, Float):
        if v.isnan:
            return ['nan']
        if v.isinf:
            return ['inf', bool(v.s)]
        if v.is_zero():
            return ['0', bool(v.s)]
        return ['q', str(v.as_rational())]
    if isinstance(v, RealFloat):
        if v.is_zero():
            return ['0', bool(v.s)]
        return ['q', str(v.as_rational())]
    if isinstance(v, Fraction):
        return ['0', False] if v == 0 else ['q', str(v)]
    if isinstance(v, int):
        return ['0', False] if v == 0 else ['q', str(v)]
    if isinstance(v, float):
        if v != v:
            return ['nan']
        if v in (float('inf'), float('-inf')):
            return ['inf', v < 0]
        if v == 0:
            import math
            return ['0', math.copysign(1.0, v) < 0]
        return ['q', str(Fraction(v))]
    if isinstance(v, Context):
        return ['ctx', repr(v)]
    if v is None:
        return ['none']
    return ['?', type(v).__name__]


def list_ids(obj, out: set | None = None) -> set:
    """ids of every `list` reachable from obj."""
    if out is None:
        out = set()
    if isinstance(obj, list):
        if id(obj) in out:
            return out
        out.add(id(obj))
        for x in obj:
            list_ids(x, out)
    elif isinstance(obj, tuple):
        for x in obj:
            list_ids(x, out)
    return out


def scribble(obj, mark, seen: set | None = None) -> int:
    """What a caller may do with a result it was handed: every list in it is overwritten in place
    (one element longer, every element `mark`).  Returns how many lists were changed."""
    if seen is None:
        seen = set()
    n = 0
    if isinstance(obj, list):
        if id(obj) in seen:
            return 0
        seen.add(id(obj))
        for x in obj:
            n += scribble(x, mark, seen)
        obj[:] = [mark] * (len(obj) + 1)
        n += 1
    elif isinstance(obj, tuple):
        for x in obj:
            n += scribble(x, mark, seen)
    return n


def strict(v):
    """Everything a result shows, not only what it denotes: representation, flags and context of
    every number in it (a digest of its repr)."""
    import hashlib
    text = repr(v)
    if ' at 0x' in text:
        return None        # some object without a value-based repr: nothing to compare
    return hashlib.sha256(text.encode()).hexdigest()[:16]
