"""
The `engine` fault: an additional *legal* arithmetic engine registered at top
priority.  It answers a seeded subset of add/sub/mul/div/fma requests with the
exact result as a `Fraction` (which any context re-rounds correctly) and
declines (returns None) everything else.  Whether it answers is a pure function
of (seed, operation, operand values), never of call order, so the engine
itself is schedule-independent.
"""

from __future__ import annotations

import hashlib
from fractions import Fraction


def make_exact_engine(seed: int, rate: float = 0.5):
    from fpy2.number.engine.engine import Engine
    from fpy2.number import Float

    stats = {'asked': 0, 'answered': 0}

    def _val(x):
        if isinstance(x, Fraction):
            return x
        if isinstance(x, Float):
            if x.is_nar():
                return None
            return x.as_rational()
        return None

    def _decide(op: str, vals) -> bool:
        h = hashlib.sha256(f'{seed}:{op}:{vals}'.encode()).digest()
        return h[0] < int(rate * 256)

    def _mk(op, fn):
        def method(self, *args):
            *xs, ctx = args
            stats['asked'] += 1
            vals = [_val(x) for x in xs]
            if any(v is None for v in vals):
                return None
            if not _decide(op, vals):
                return None
            try:
                r = fn(*vals)
            except ZeroDivisionError:
                return None
            if r == 0:
                return None      # the sign of an exact zero is the default engines' business
            stats['answered'] += 1
            return r
        return method

    body = {}
    for name in Engine.__abstractmethods__:
        body[name] = (lambda self, *a, **k: None)
    body['add'] = _mk('add', lambda a, b: a + b)
    body['sub'] = _mk('sub', lambda a, b: a - b)
    body['mul'] = _mk('mul', lambda a, b: a * b)
    body['div'] = _mk('div', lambda a, b: a / b)
    body['fma'] = _mk('fma', lambda a, b, c: a * b + c)
    cls = type('SimExactEngine', (Engine,), body)
    eng = cls()
    eng.stats = stats
    return eng
