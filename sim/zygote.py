"""
The pristine template process ("zygote").

Every simulated run, every replay and every reference evaluation is a fresh
`fork` of this one process.  It is exec'd with a canonical command line and
environment, with address-space randomisation off, imports the whole
repository package and the workloads, evaluates nothing, and then only
accepts connections and forks: all request-dependent work (and allocation)
happens in the child.  The child's starting state -- including the address of
every object, hence every `id()`-based hash and set order -- is therefore the
same for every request, in every worker, in every invocation on the same tree.

Protocol (Unix stream socket inherited as fd 3): the client sends a length-
prefixed JSON request {"kind": "run"|"ref"|"ping", ...}; the forked child
answers with "pid\\n" followed by a JSON result and closes.
"""

from __future__ import annotations

import json
import os
import signal
import socket
import struct
import subprocess
import sys
import time

HERE = os.path.dirname(os.path.dirname(os.path.abspath(__file__)))
LISTEN_FD = 3


# --------------------------------------------------------------------------
# server side

def _serve():
    sys.path.insert(0, HERE)
    from sim import core
    for p in (core.REPO, HERE):
        if p in sys.path:
            sys.path.remove(p)
    sys.path.insert(0, HERE)
    sys.path.insert(0, core.REPO)
    sys.setrecursionlimit(10000)
    try:
        import ctypes
        ctypes.CDLL(None).prctl(1, signal.SIGTERM)     # PR_SET_PDEATHSIG: die with the check
    except Exception:
        pass
    import faulthandler
    import traceback
    from checks import c18
    for n in c18.WL_FILES:
        c18.load_ns(n)
    import gc
    gc.collect()
    signal.signal(signal.SIGCHLD, signal.SIG_IGN)     # children are reaped by the kernel
    sock = socket.socket(fileno=LISTEN_FD)
    accept = sock.accept
    fork = os.fork
    while True:
        conn, _ = accept()
        pid = fork()
        if pid == 0:
            code = 0
            try:
                sock.close()
                signal.signal(signal.SIGCHLD, signal.SIG_DFL)
                faulthandler.enable()
                conn.sendall(f'{os.getpid()}\n'.encode())
                hdr = _recvn(conn, 4)
                (n,) = struct.unpack('!I', hdr)
                req = json.loads(_recvn(conn, n))
                faulthandler.dump_traceback_later(req.get('timeout', 300) + 10, exit=True)
                try:
                    if req['kind'] == 'run':
                        out = ('ok', c18.execute_run(req['run']))
                    elif req['kind'] == 'ref':
                        out = ('ok', c18._ref_eval(req['key'], req['args'], req['ctx']))
                    elif req['kind'] == 'ping':
                        out = ('ok', {'pid': os.getpid(), 'probe': id(object())})
                    else:
                        out = ('exc', f'unknown request {req["kind"]}')
                except BaseException:
                    out = ('exc', traceback.format_exc())
                conn.sendall(json.dumps(out, default=str).encode())
                conn.close()
            except BaseException:
                code = 3
            finally:
                os._exit(code)
        conn.close()
        del conn, pid


def _recvn(conn, n: int):
    """Reads exactly n bytes into one preallocated buffer: how the kernel happens to chunk the
    request must not change what the child allocates (its heap layout is part of the run)."""
    buf = bytearray(n)
    view = memoryview(buf)
    got = 0
    while got < n:
        k = conn.recv_into(view[got:], n - got)
        if not k:
            raise EOFError('short read')
        got += k
    view.release()
    return buf


# --------------------------------------------------------------------------
# client side

_STATE = {'proc': None, 'path': None}


def canonical_env() -> dict:
    from sim import core
    nopyc = os.path.join(core.VERIF, '.cache', 'nopyc')
    os.makedirs(nopyc, exist_ok=True)
    return {
        'PYTHONHASHSEED': os.environ.get('VERIF_HASHSEED', '0'),
        'FPY2_VERIF': '1',
        'PYTHONDONTWRITEBYTECODE': '1',
        'PYTHONPYCACHEPREFIX': nopyc,        # never finds (or writes) a .pyc: start-up is the same every time
        'VERIF_REPO': core.REPO,
        'PATH': '/usr/local/bin:/usr/bin:/bin',
        'HOME': '/root',
        'LANG': 'C.UTF-8',
    }


def start():
    """Starts the zygote (idempotent); call in the main process before any worker is forked."""
    if os.environ.get('VERIF_ZYGOTE'):
        return os.environ['VERIF_ZYGOTE']
    from sim import core
    d = os.path.join(core.VERIF, '.cache')
    os.makedirs(d, exist_ok=True)
    path = os.path.join(d, f'zyg-{os.getpid():08d}.sock')
    try:
        os.unlink(path)
    except FileNotFoundError:
        pass
    srv = socket.socket(socket.AF_UNIX, socket.SOCK_STREAM)
    srv.bind(path)
    srv.listen(128)
    cmd = [sys.executable, os.path.abspath(__file__)]
    if os.path.exists('/usr/bin/setarch'):
        cmd = ['/usr/bin/setarch', os.uname().machine, '-R'] + cmd

    def pre():
        os.dup2(srv.fileno(), LISTEN_FD)
        os.set_inheritable(LISTEN_FD, True)

    proc = subprocess.Popen(cmd, env=canonical_env(), cwd=core.VERIF, preexec_fn=pre, close_fds=False,
                            stdin=subprocess.DEVNULL)
    srv.close()
    _STATE['proc'] = proc
    _STATE['path'] = path
    os.environ['VERIF_ZYGOTE'] = path
    import atexit
    atexit.register(stop)
    # wait until it serves
    deadline = time.monotonic() + 120
    while True:
        try:
            kind, val = request({'kind': 'ping'}, timeout=5)
            if kind == 'ok':
                break
        except Exception:
            pass
        if proc.poll() is not None:
            raise RuntimeError(f'zygote exited with {proc.returncode}')
        if time.monotonic() > deadline:
            raise RuntimeError('zygote did not start')
        time.sleep(0.1)
    return path


def stop():
    proc = _STATE.get('proc')
    if proc is not None and proc.poll() is None:
        proc.terminate()
        try:
            proc.wait(5)
        except Exception:
            proc.kill()
    p = _STATE.get('path')
    if p:
        try:
            os.unlink(p)
        except OSError:
            pass
    _STATE['proc'] = None


def request(req: dict, timeout: float = 300.0):
    """Sends a request; returns ('ok', value) / ('exc', text) / ('timeout', None) / ('died', None)."""
    path = os.environ.get('VERIF_ZYGOTE')
    if not path:
        raise RuntimeError('zygote not started')
    req = dict(req, timeout=timeout)
    data = json.dumps(req).encode()
    s = socket.socket(socket.AF_UNIX, socket.SOCK_STREAM)
    s.settimeout(timeout + 15)
    pid = None
    try:
        s.connect(path)
        s.sendall(struct.pack('!I', len(data)) + data)
        buf = b''
        deadline = time.monotonic() + timeout + 12
        while True:
            try:
                b = s.recv(1 << 16)
            except socket.timeout:
                b = None
            if b is None or time.monotonic() > deadline:
                if pid is None and b'\n' in buf:
                    pid = int(buf.split(b'\n', 1)[0])
                if pid:
                    try:
                        os.kill(pid, signal.SIGKILL)
                    except OSError:
                        pass
                return ('timeout', None)
            if not b:
                break
            buf += b
        if b'\n' not in buf:
            return ('died', None)
        head, body = buf.split(b'\n', 1)
        if not body:
            return ('died', None)
        try:
            kind, val = json.loads(body)
        except Exception:
            return ('died', None)
        return (kind, val)
    finally:
        s.close()


if __name__ == '__main__':
    _serve()
