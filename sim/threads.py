"""
Seeded scheduler over real caller threads.

K real `threading.Thread`s each own a semaphore; exactly one holds the baton
and runs Python code, the others are parked in `acquire`, so the GIL never
chooses who runs.  Pre-emption points are `sys.settrace` line events (and
opcode events in selected modules) of frames whose code lives in the repository
package or in a workload file.  The scheduler decides at each such event,
from its own PRNG or from an explicit schedule, whether the running thread
keeps the baton.  The step counter is the only notion of time.

Cancellation faults are injected by raising `SimCancel` from the trace
function at a chosen step of a chosen operation.
"""

from __future__ import annotations

import hashlib
import random
import _thread
import sys
import time


class SimCancel(BaseException):
    """An evaluation interrupted at an arbitrary instant (Ctrl-C, timeout, killed worker)."""


class StepLimit(BaseException):
    """The run exceeded its step cap."""


def pack_schedule(segments: list) -> str:
    """An explicit schedule as one hex string: 6 bytes per segment (thread, steps, ends-with-exit).
    One string instead of thousands of small lists, so that a replay request disturbs the child's
    small-object heap -- and with it id()-dependent orders inside fpy2 -- as little as possible."""
    import struct
    return b''.join(struct.pack('<BIB', e[0], min(e[1], 0xFFFFFFFF), 1 if len(e) > 2 and e[2] == 'x' else 0) for e in segments).hex()


class _Packed:
    """Read-only view of a schedule given either as a list of [thread, steps(, 'x')] or packed."""

    def __init__(self, schedule):
        import struct
        self._unpack = struct.Struct('<BIB').unpack_from
        if isinstance(schedule, str):
            self._buf = bytes.fromhex(schedule)
            self._n = len(self._buf) // 6
            self._list = None
        else:
            self._list = list(schedule)
            self._n = len(self._list)

    def __len__(self):
        return self._n

    def __getitem__(self, k):
        if self._list is not None:
            return self._list[k]
        t, n, x = self._unpack(self._buf, 6 * k)
        return (t, n, 'x') if x else (t, n)


class Scheduler:
    def __init__(self, nthreads: int, rng: random.Random | None, *, trace_prefixes: tuple[str, ...],
                 mean_quantum: int = 400, opcode_files: tuple[str, ...] = (), hot_names: frozenset = frozenset(),
                 hot_bias: float = 0.0, schedule: list | None = None, max_steps: int = 3_000_000,
                 record_locations: bool = True, starve: float = 0.0, publish_probe=None):
        self.n = nthreads
        self.rng = rng
        self.trace_prefixes = trace_prefixes
        self.mean_quantum = max(1, mean_quantum)
        self.opcode_files = opcode_files
        self.hot_names = hot_names
        self.hot_bias = hot_bias
        # `publish_probe()` returns a number that changes whenever shared state is published (a cache
        # entry stored, an engine registered): a thread that has just published something is a good
        # one to hold back -- "published before it was complete" is the classic window
        self.publish_probe = publish_probe
        self._published = None
        self.starve = starve                     # chance that a thread pre-empted in a hot function is held back for long
        self.holds = 0
        self.held: dict[int, int] = {}           # thread -> global step until which it is not chosen (seeded mode only)
        self.replay = schedule is not None
        self.schedule_in = _Packed(schedule) if schedule is not None else None
        self.sched_pos = 0
        self.max_steps = max_steps
        self.record_locations = record_locations

        # The baton: one raw lock per thread, held (locked) while the thread is parked.  Raw locks and
        # pre-bound methods are used on purpose: `threading.Semaphore`/`Event`/`Thread` run Python
        # code (and allocate) on both sides of a hand-over, which races for real and perturbs the
        # allocator state -- and with it `id()`-dependent hashing -- between otherwise equal runs.
        self._gates = [_thread.allocate_lock() for _ in range(nthreads)]
        for g in self._gates:
            g.acquire()
        self._park = tuple(g.acquire for g in self._gates)
        self._wake = tuple(g.release for g in self._gates)
        self._fins = [_thread.allocate_lock() for _ in range(nthreads)]
        for g in self._fins:
            g.acquire()
        self._fin_park = tuple(g.acquire for g in self._fins)
        self._done = _thread.allocate_lock()
        self._done.acquire()
        self.alive = [False] * nthreads
        self.started = [False] * nthreads
        self.cur: int | None = None
        self.steps = 0
        self.seg_steps = 0
        self.budget = 0
        self.segments: list[list[int]] = []     # recorded schedule [[thread, steps], ...]
        self.switches = 0
        self.log = hashlib.sha256()              # event log digest (never draws, never reads a clock)
        self.items = None                        # debugging aid: the log entries themselves
        self.pairs: set[str] = set()             # (preempted function -> resumed function) reach measure
        self.where = [''] * nthreads             # last known location of each thread
        self.op_steps = [0] * nthreads           # steps since the current op of a thread began
        self.cancel_at: list[int | None] = [None] * nthreads
        self.cancel_fn: list = [None] * nthreads        # [function name, k]: cancel at the k-th line event inside it
        self.cancelled_fired = 0
        self.finished = False
        self.errors: list[str] = []
        self.overrun = False
        self._code_filter: dict = {}
        self.atomic = [False] * nthreads         # no pre-emption while set (harness-only sections)
        # a thread parked inside a module body would hold that module's import lock while another
        # thread, holding the baton, blocks on it for real: never pre-empt while importing
        self.importing = [0] * nthreads

    # -- schedule decisions -------------------------------------------------

    def _next_budget(self) -> int:
        if self.replay:
            if self.sched_pos < len(self.schedule_in):
                ent = self.schedule_in[self.sched_pos]
                if len(ent) > 2 and ent[2] == 'x':
                    return 1 << 60
                return ent[1]
            return 1 << 60   # schedule exhausted: run to completion
        # geometric quantum with the configured mean
        q = self.mean_quantum
        u = self.rng.random()
        # inverse-CDF of a geometric distribution, cheap approximation
        import math
        return 1 + int(-math.log(1.0 - u) * q)

    def _pick_next(self, i: int | None) -> int | None:
        cands = [j for j in range(self.n) if self.alive[j] and j != i]
        if not cands:
            return None
        if self.replay:
            # the thread named by the next schedule entry, if it can run
            nxt = self.sched_pos + 1
            if nxt < len(self.schedule_in):
                t = self.schedule_in[nxt][0]
                if t in cands:
                    return t
                if t == i and i is not None and self.alive[i]:
                    return None      # the recorded run kept the baton here (everybody else was held back)
            return cands[0]
        # a held thread stays parked while anybody else can run: this stretches a window that is
        # one line wide (between two stores, say) over whole operations of the other threads
        free = [j for j in cands if self.held.get(j, 0) <= self.steps]
        if free:
            return self.rng.choice(free)
        if self.held.get(i if i is not None else -1, 0) > min(self.held.get(j, 0) for j in cands) or i is None:
            # everybody is held: the one whose hold ends first goes on, the longest-held waits longest
            return min(cands, key=lambda j: (self.held.get(j, 0), j))
        return None if i is not None and self.alive[i] else min(cands, key=lambda j: (self.held.get(j, 0), j))

    def _record_segment(self, i: int, exiting: bool = False):
        # a segment that ended because the thread finished is marked: on replay it runs to the
        # thread's end instead of handing over when the recorded length is reached
        self.segments.append([i, self.seg_steps, 'x'] if exiting else [i, self.seg_steps])
        self.seg_steps = 0
        if self.replay:
            self.sched_pos += 1

    # -- baton --------------------------------------------------------------

    def start(self):
        """Gives the baton to the first thread (call after all threads are started)."""
        for j in range(self.n):
            self.alive[j] = True
        if self.replay and self.schedule_in:
            first = self.schedule_in[0][0]
            if not (0 <= first < self.n):
                first = 0
        elif self.replay:
            first = 0
        else:
            first = self.rng.randrange(self.n)
        self.cur = first
        self.budget = self._next_budget()
        return first

    def _switch(self, i: int, frame):
        j = self._pick_next(i)
        if j is None:
            # nobody else can run: keep going with a new budget
            self._record_segment(i)
            self.budget = self._next_budget()
            return
        self._record_segment(i)
        self.switches += 1
        if self.record_locations and frame is not None:
            co = frame.f_code
            loc = f'{co.co_filename.rsplit("/", 1)[-1]}:{co.co_name}:{frame.f_lineno}'
            self.where[i] = f'{co.co_filename.rsplit("/", 1)[-1]}:{co.co_name}'
            self.log.update(f'S{i}>{j}@{loc};'.encode())
            if self.items is not None:
                self.items.append(f'S{i}>{j}@{loc}')
            self.pairs.add(f'{self.where[i]}|{self.where[j]}')
        else:
            self.log.update(f'S{i}>{j};'.encode())
        self.cur = j
        self.budget = self._next_budget()
        wake, park = self._wake[j], self._park[i]
        wake()
        park()

    def _exit(self, i: int):
        """Thread i finished: hand the baton on."""
        self.alive[i] = False
        self.where[i] = 'done'
        j = self._pick_next(i)
        self._record_segment(i, exiting=True)
        self.log.update(f'X{i};'.encode())
        if j is None:
            self.cur = None
            self.finished = True
            return True
        self.cur = j
        self.budget = self._next_budget()
        self._wake[j]()
        return False

    # -- tracing ------------------------------------------------------------

    def _wanted(self, code) -> int:
        """0 = not traced, 1 = line-granular, 2 = opcode-granular."""
        r = self._code_filter.get(code)
        if r is None:
            fn = code.co_filename
            r = 0
            for p in self.trace_prefixes:
                if fn.startswith(p):
                    r = 1
                    break
            # the package's import hook runs inside the import system, under import locks the
            # baton does not see: never a pre-emption point
            if r and fn.endswith('utils/loader.py'):
                r = 0
            if r and self.opcode_files:
                for s in self.opcode_files:
                    if fn.endswith(s):
                        r = 2
                        break
            self._code_filter[code] = r
        return r

    def make_tracer(self, i: int):
        sched = self

        def local(frame, event, arg):
            if event == 'line' or event == 'opcode':
                sched.steps += 1
                sched.seg_steps += 1
                sched.op_steps[i] += 1
                ca = sched.cancel_at[i]
                # (an exception raised from an 'opcode' event can crash CPython 3.12: cancel on line events only)
                if ca is not None and event == 'line' and sched.op_steps[i] >= ca:
                    sched.cancel_at[i] = None
                    sched.cancelled_fired += 1
                    sched.log.update(f'C{i}@{sched.op_steps[i]};'.encode())
                    raise SimCancel()
                cf = sched.cancel_fn[i]
                if cf is not None and event == 'line' and frame.f_code.co_name == cf[0]:
                    cf[1] -= 1
                    if cf[1] <= 0:
                        sched.cancel_fn[i] = None
                        sched.cancelled_fired += 1
                        sched.log.update(f'C{i}@{cf[0]}:{frame.f_lineno};'.encode())
                        raise SimCancel()
                if sched.steps > sched.max_steps:
                    sched.overrun = True
                    raise StepLimit()
                if sched.publish_probe is not None and sched.starve and not sched.replay:
                    pv = sched.publish_probe()
                    if pv != sched._published:
                        first = sched._published is None
                        sched._published = pv
                        if not first and sched.rng.random() < 0.6:
                            sched.holds += 1
                            if sched.items is not None:
                                sched.items.append(f'HOLD{i}@{frame.f_code.co_name}:{frame.f_lineno}')
                            sched.held[i] = max(sched.held.get(i, 0), sched.steps + int(2 ** sched.rng.uniform(14, 19)))
                            sched.budget = sched.seg_steps
                if sched.starve and not sched.replay and frame.f_code.co_name in sched.hot_names \
                        and sched.rng.random() < sched.starve * 0.004:
                    # inside a hot function every line may be the one where this thread is held back
                    # while the others run on (a race window is often a single line wide)
                    sched.held[i] = max(sched.held.get(i, 0), sched.steps + int(2 ** sched.rng.uniform(10, 16)))
                    sched.budget = sched.seg_steps
                if sched.seg_steps >= sched.budget and not sched.atomic[i] and not sched.importing[i]:
                    sched._switch(i, frame)
            return local

        def modlocal(frame, event, arg):
            if event == 'return':
                sched.importing[i] -= 1
            return modlocal

        def glob(frame, event, arg):
            w = sched._wanted(frame.f_code)
            if not w:
                return None
            if frame.f_code.co_name == '<module>':
                sched.importing[i] += 1
                return modlocal
            if w == 2:
                frame.f_trace_opcodes = True
            if sched.hot_bias and frame.f_code.co_name in sched.hot_names and not sched.replay:
                if sched.rng.random() < sched.hot_bias:
                    # force a pre-emption shortly after entering a hot function
                    sched.budget = min(sched.budget, sched.seg_steps + 1 + sched.rng.randrange(6))
            return local

        return glob

    # -- thread bodies ------------------------------------------------------

    def run_threads(self, bodies: list, timeout: float = 300.0):
        """
        `bodies[i](sched, i)` is the work of simulated thread i; it runs with
        tracing enabled and only while it holds the baton.
        """
        ready = [_thread.allocate_lock() for _ in range(self.n)]
        for g in ready:
            g.acquire()
        ready_rel = tuple(g.release for g in ready)
        ready_acq = tuple(g.acquire for g in ready)
        self._tracers = [None] * self.n
        for i in range(self.n):
            self._tracers[i] = self.make_tracer(i)

        def main(i):
            # raw thread: no Python-level bootstrap races with the parent
            ready_rel[i]()
            self._park[i]()
            sys.settrace(self._tracers[i])
            try:
                bodies[i](self, i)
            except StepLimit:
                self.overrun = True
            except BaseException as e:   # harness bug or an escaped SimCancel
                import traceback
                self.errors.append(f'thread {i}: {type(e).__name__}: {e}\n{traceback.format_exc()}')
            finally:
                sys.settrace(None)
                last = self._exit(i)
            # (after handing the baton on, this thread must not read shared state: the next one runs)
            if last:
                # last one out: nothing else is running; release everybody, then the caller
                for k in range(self.n):
                    if k != i:
                        self._fins[k].release()
                self._done.release()
            else:
                # stay parked until the run is over, so thread teardown never overlaps a running thread
                self._fin_park[i]()

        for i in range(self.n):
            _thread.start_new_thread(main, (i,))
            # one at a time: the parent is blocked (in C) while thread i starts up and parks
            ready_acq[i]()
        first = self.start()
        wake = self._wake[first]
        acquire_done = self._done.acquire
        wake()
        ok = acquire_done(True, timeout)
        if not ok:
            self.errors.append('scheduler wall-clock timeout (deadlock in the harness?)')
        else:
            time.sleep(0.01)   # let the raw threads unwind
        return ok

    def rearm(self, i: int):
        """Re-enables tracing for thread i after a trace function raised (SimCancel)."""
        sys.settrace(self._tracers[i])

    def begin_op(self, i: int, cancel_at=None):
        """`cancel_at`: None, a step count within the op, or [function name, k] = the k-th line
        event inside that function during the op (faults placed where state is being changed)."""
        self.op_steps[i] = 0
        if isinstance(cancel_at, (list, tuple)):
            self.cancel_at[i] = None
            self.cancel_fn[i] = [cancel_at[0], int(cancel_at[1])]
        else:
            self.cancel_at[i] = cancel_at
            self.cancel_fn[i] = None

    def end_op(self, i: int) -> int:
        self.cancel_at[i] = None
        self.cancel_fn[i] = None
        return self.op_steps[i]

    def note(self, text: str):
        """Adds an op outcome to the event log digest."""
        self.log.update(text.encode())
        if self.items is not None:
            self.items.append(text)

    def digest(self) -> str:
        return self.log.hexdigest()[:24]
