"""
Shared core of the deterministic simulator: seed discipline, hermetic process
handling, batch driver, replay files, delta-debugging minimiser, known-findings
lookup and the evidence writer.

Nothing in here draws from a PRNG on a logging path or reads a clock for
anything but bounding the *number* of runs in a batch.
"""

from __future__ import annotations

import faulthandler
import hashlib
import json
import multiprocessing
import os
import random
import signal
import sys
import time
import traceback
from collections import Counter
from concurrent.futures import ProcessPoolExecutor, as_completed
from concurrent.futures.process import BrokenProcessPool

VERIF = os.path.dirname(os.path.dirname(os.path.abspath(__file__)))
REPO = os.environ.get('VERIF_REPO', '/repo')

EXIT_OK = 0
EXIT_VIOLATION = 1
EXIT_HARNESS = 2


# --------------------------------------------------------------------------
# environment

def ensure_env():
    """
    Re-executes the interpreter with a pinned hash seed (set iteration order is
    one of the sources of nondeterminism the simulator has to own) and makes
    sure `fpy2` is imported from /repo's working tree, hooks enabled.
    """
    want = os.environ.get('VERIF_HASHSEED', '0')
    if os.environ.get('PYTHONHASHSEED') != want:
        env = dict(os.environ)
        env['PYTHONHASHSEED'] = want
        env['FPY2_VERIF'] = '1'
        os.execve(sys.executable, [sys.executable] + sys.argv, env)
    os.environ.setdefault('FPY2_VERIF', '1')
    for p in (REPO, VERIF):
        if p in sys.path:
            sys.path.remove(p)
    sys.path.insert(0, VERIF)
    sys.path.insert(0, REPO)
    sys.setrecursionlimit(10000)


def base_seed() -> int:
    try:
        return int(os.environ.get('VERIF_SEED', '0'))
    except ValueError:
        return 0


def run_seed(prop: str, base: int, i: int) -> int:
    """64-bit seed of run `i` of a batch: one integer decides everything.  The low 16 bits are the
    run's index in the batch, so a generator can stratify (cycle through run shapes and through the
    workload) instead of leaving coverage of a short batch to chance."""
    h = hashlib.sha256(f'{prop}:{base}:{i}'.encode()).digest()
    return (int.from_bytes(h[:8], 'big') & ~0xFFFF) | (i & 0xFFFF)


def digest(obj) -> str:
    return hashlib.sha256(json.dumps(obj, sort_keys=True, default=str).encode()).hexdigest()[:16]


# --------------------------------------------------------------------------
# violations and known findings

class Violation(dict):
    """
    A violation record: {property, cls, signature, detail, case}.
    `signature` identifies the failing input / call site / history for
    known-findings matching; `case` is whatever the check needs to replay it.
    """


def load_known(prop: str) -> list[dict]:
    path = os.path.join(VERIF, 'known_findings.json')
    if not os.path.exists(path):
        return []
    with open(path) as f:
        data = json.load(f)
    return [e for e in data.get('open', []) if e.get('property') == prop]


def match_known(v: dict, known: list[dict]) -> dict | None:
    """
    An open finding matches a violation when every key of its `match` object
    is present in the violation's `signature` object with an equal value.
    """
    sig = v.get('signature', {})
    for e in known:
        m = e.get('match', {})
        if m and all(sig.get(k) == val for k, val in m.items()):
            return e
    return None


def write_replay(prop: str, v: dict) -> str:
    d = os.path.join(VERIF, 'replays', prop)
    os.makedirs(d, exist_ok=True)
    name = f"{v.get('seed', 0):016x}-{digest(v.get('case'))}.json"
    path = os.path.join(d, name)
    with open(path, 'w') as f:
        json.dump(v, f, indent=1, sort_keys=True, default=str)
    return path


# --------------------------------------------------------------------------
# delta debugging

def ddmin(items: list, test, max_tests: int = 400) -> list:
    """
    Classic ddmin over a list: returns a 1-minimal sublist for which `test`
    (a predicate "still fails the same way") is true.  `test(items)` is
    assumed true on entry.
    """
    n = 2
    tests = 0
    items = list(items)
    while len(items) >= 2 and tests < max_tests:
        chunk = max(1, len(items) // n)
        subsets = [items[i:i + chunk] for i in range(0, len(items), chunk)]
        reduced = False
        for i in range(len(subsets)):
            complement = [x for j, s in enumerate(subsets) if j != i for x in s]
            tests += 1
            if complement and test(complement):
                items = complement
                n = max(n - 1, 2)
                reduced = True
                break
            if tests >= max_tests:
                break
        if not reduced:
            if n >= len(items):
                break
            n = min(len(items), n * 2)
    if len(items) == 1 and tests < max_tests:
        pass
    return items


# --------------------------------------------------------------------------
# hermetic execution: run a function in a fresh fork of this process

def forked(fn, *args, timeout: float = 120.0):
    """
    Runs `fn(*args)` in a fresh fork of the calling process and returns
    ('ok', result) / ('exc', text) / ('timeout', None) / ('died', status).
    The result travels back as JSON over a pipe.
    """
    r, w = os.pipe()
    pid = os.fork()
    if pid == 0:
        code = 0
        try:
            os.close(r)
            try:
                faulthandler.enable()
                faulthandler.dump_traceback_later(timeout + 5, exit=True)
            except Exception:
                pass
            try:
                out = ('ok', fn(*args))
            except BaseException:
                out = ('exc', traceback.format_exc())
            data = json.dumps(out, default=str).encode()
            with os.fdopen(w, 'wb') as f:
                f.write(data)
        except BaseException:
            code = 3
        finally:
            os._exit(code)
    os.close(w)
    chunks = []
    deadline = time.monotonic() + timeout
    import select
    timed_out = False
    with os.fdopen(r, 'rb') as f:
        fd = f.fileno()
        while True:
            left = deadline - time.monotonic()
            if left <= 0:
                timed_out = True
                break
            ready, _, _ = select.select([fd], [], [], min(left, 1.0))
            if ready:
                b = os.read(fd, 1 << 16)
                if not b:
                    break
                chunks.append(b)
    if timed_out:
        try:
            os.kill(pid, signal.SIGKILL)
        except ProcessLookupError:
            pass
        os.waitpid(pid, 0)
        return ('timeout', None)
    _, status = os.waitpid(pid, 0)
    data = b''.join(chunks)
    if not data:
        return ('died', status)
    try:
        kind, val = json.loads(data)
    except Exception:
        return ('died', status)
    return (kind, val)


# --------------------------------------------------------------------------
# batch driver

class Stats:
    """Mergeable counters a run reports (all JSON-friendly)."""

    def __init__(self):
        self.counters: dict[str, Counter] = {}
        self.sets: dict[str, set] = {}
        self.samples: list = []

    def count(self, group: str, key: str, n: int = 1):
        self.counters.setdefault(group, Counter())[key] += n

    def add(self, group: str, item):
        self.sets.setdefault(group, set()).add(item)

    def dump(self) -> dict:
        return {
            'counters': {g: dict(c) for g, c in self.counters.items()},
            'sets': {g: sorted(s) for g, s in self.sets.items()},
            'samples': self.samples,
        }

    def merge(self, d: dict, max_samples: int = 6):
        for g, c in d.get('counters', {}).items():
            self.counters.setdefault(g, Counter()).update(c)
        for g, s in d.get('sets', {}).items():
            self.sets.setdefault(g, set()).update(s)
        for s in d.get('samples', []):
            if len(self.samples) < max_samples:
                self.samples.append(s)


def _chunk_worker(modname: str, fnname: str, prop: str, base: int, indices: list[int], tier: str):
    import importlib
    mod = importlib.import_module(modname)
    fn = getattr(mod, fnname)
    out = []
    for i in indices:
        seed = run_seed(prop, base, i)
        try:
            res = fn(seed, tier)
        except BaseException:
            res = {'harness_error': traceback.format_exc(), 'seed': seed}
        res['index'] = i
        res.setdefault('seed', seed)
        out.append(res)
    return out


def run_batch(prop: str, modname: str, fnname: str, *, tier: str, budget_s: float,
              max_runs: int | None, chunk: int, workers: int | None = None,
              chunk_timeout: float = 600.0, stop_on_violation: int = 8):
    """
    Runs `modname.fnname(seed, tier)` for run indices 0,1,2,... on a fork pool
    until the wall budget or `max_runs` is reached.  Wall-clock only bounds how
    many runs happen, never what a run does.  Returns (results_summary).
    """
    base = base_seed()
    workers = workers or int(os.environ.get('VERIF_WORKERS', '0')) or min(16, os.cpu_count() or 1)
    ctx = multiprocessing.get_context('fork')
    t0 = time.monotonic()
    stats = Stats()
    violations: list[dict] = []
    harness_errors: list[str] = []
    runs = 0
    next_index = 0
    seeds: list[int] = []
    pool = ProcessPoolExecutor(max_workers=workers, mp_context=ctx)
    pending = {}
    try:
        def submit():
            nonlocal next_index
            if max_runs is not None and next_index >= max_runs:
                return False
            hi = next_index + chunk
            if max_runs is not None:
                hi = min(hi, max_runs)
            idx = list(range(next_index, hi))
            next_index = hi
            fut = pool.submit(_chunk_worker, modname, fnname, prop, base, idx, tier)
            pending[fut] = (idx, time.monotonic())
            return True

        for _ in range(workers + 2):
            if not submit():
                break
        while pending:
            done = []
            try:
                for fut in as_completed(list(pending), timeout=5.0):
                    done.append(fut)
                    break
            except Exception:
                pass
            now = time.monotonic()
            if not done:
                # watch for stuck chunks
                for fut, (idx, ts) in list(pending.items()):
                    if now - ts > chunk_timeout:
                        harness_errors.append(f'chunk {idx[0]}..{idx[-1]} exceeded {chunk_timeout}s')
                        pending.pop(fut)
                        fut.cancel()
                if harness_errors and not pending:
                    break
                continue
            for fut in done:
                idx, _ = pending.pop(fut)
                try:
                    out = fut.result()
                except BrokenProcessPool:
                    harness_errors.append(f'worker died in chunk {idx[0]}..{idx[-1]}')
                    raise
                except BaseException:
                    harness_errors.append(traceback.format_exc())
                    continue
                for res in out:
                    runs += 1
                    if len(seeds) < 32:
                        seeds.append(res['seed'])
                    if 'harness_error' in res:
                        harness_errors.append(res['harness_error'])
                        continue
                    stats.merge(res.get('stats', {}))
                    for v in res.get('violations', []):
                        v.setdefault('seed', res['seed'])
                        v.setdefault('index', res['index'])
                        violations.append(v)
            over = (time.monotonic() - t0) > budget_s
            many = len(violations) >= stop_on_violation
            if not over and not many and len(harness_errors) < 20:
                while len(pending) < workers + 2:
                    if not submit():
                        break
    except BrokenProcessPool:
        pass
    finally:
        pool.shutdown(wait=False, cancel_futures=True)
    wall = time.monotonic() - t0
    return {
        'runs': runs, 'stats': stats, 'violations': violations,
        'harness_errors': harness_errors, 'wall_s': wall, 'seeds': seeds,
        'base_seed': base, 'workers': workers,
    }


# --------------------------------------------------------------------------
# evidence

def write_evidence(prop: str, tier: str, level: str, coverage: dict, *, wall_s: float,
                   violations: int, assumptions: list[str]):
    # (the mutant-trial and soak tools point this elsewhere, so that evidence/ only ever describes
    # runs against the repository as it is)
    d = os.environ.get('VERIF_EVIDENCE_DIR') or os.path.join(VERIF, 'evidence')
    os.makedirs(d, exist_ok=True)
    ev = {
        'property_id': prop,
        'tier': tier,
        'seed': base_seed(),
        'level': level,
        'coverage': coverage,
        'assumptions': assumptions,
        'wall_s': round(wall_s, 3),
        'violations': violations,
    }
    path = os.path.join(d, f'{prop}.json')
    tmp = path + '.tmp'
    with open(tmp, 'w') as f:
        json.dump(ev, f, indent=1, sort_keys=True, default=str)
    os.replace(tmp, path)
    return path


def report(prop: str, violations: list[dict], known: list[dict], harness_errors: list[str],
           minimise=None) -> int:
    """
    Prints KNOWN-FINDING / VIOLATION lines and returns the exit code.
    `minimise(v)` may return a reduced violation record (replayed in a fresh
    process by the check itself).
    """
    seen_known = {}
    fresh = []
    for v in violations:
        e = match_known(v, known)
        if e is not None:
            seen_known.setdefault(e['id'], (e, v))
        else:
            fresh.append(v)
    for e, v in seen_known.values():
        print(f"KNOWN-FINDING: property={prop} {e['id']}: {e['what']}")
    code = EXIT_OK
    reported = set()
    for v in fresh:
        key = json.dumps(v.get('signature'), sort_keys=True, default=str)
        if key in reported:
            continue
        reported.add(key)
        if len(reported) > 3:
            break
        if minimise is not None:
            try:
                v = minimise(v) or v
            except BaseException:
                v['minimised'] = False
                v['minimise_error'] = traceback.format_exc()
        path = write_replay(prop, v)
        print(f"VIOLATION property={prop} replay={path}")
        print(f"  class={v.get('cls')} signature={json.dumps(v.get('signature'), sort_keys=True, default=str)}")
        print(f"  detail={json.dumps(v.get('detail'), sort_keys=True, default=str)[:600]}")
        code = EXIT_VIOLATION
    if harness_errors:
        print(f'HARNESS-ERROR property={prop} count={len(harness_errors)}', file=sys.stderr)
        print(harness_errors[0][-3000:], file=sys.stderr)
        if code == EXIT_OK:
            code = EXIT_HARNESS
    sys.stdout.flush()
    return code
